/-
  BV.Spec.BitSeq — what C18 demands of a BitList: it is a growable sequence of booleans.
-/
import BV.Base
namespace BV.Spec.BitSeq
open BV

/-- the low `k` bits of the integer `x`, most significant first (two's complement for negative `x`) -/
def lowBits (x : Int) (k : Nat) : List Bool :=
  (List.range k).map (fun i => (x / (2 : Int) ^ (k - 1 - i)) % 2 == 1)

/-- eight bits per byte, most significant first, zero padded at the end -/
def pack (bs : List Bool) : List Nat :=
  let n := (bs.length + 7) / 8
  (List.range n).map (fun i =>
    (List.range 8).foldl (fun acc j => 2 * acc + (if bs.getD (8 * i + j) false then 1 else 0)) 0)

end BV.Spec.BitSeq
