/-
  BV.Spec.RS — Reed–Solomon validity as the standards define it: a word is a codeword iff it evaluates to
  zero at the prescribed consecutive powers of the generator element.  Deliberately independent of the
  implementation's log/antilog tables: GF(2^m) multiplication is shift-and-reduce on the polynomial basis.
-/
import BV.Base
namespace BV.Spec.RS

/-- a binary field GF(2^m) given by its reduction polynomial `pp` (degree m, bit m set) and size 2^m -/
structure BinField where
  pp : Nat
  size : Nat
  deriving Repr, DecidableEq

/-- multiply by x: shift, reduce if the degree-m bit appears -/
def BinField.mulx (f : BinField) (a : Nat) : Nat :=
  let a2 := a * 2
  if a2 ≥ f.size then a2 ^^^ f.pp else a2

/-- `a * b` by Horner over the bits of `b` (most significant first); `bits` = number of bits of `size - 1` -/
def BinField.mulAux (f : BinField) (a b : Nat) : Nat → Nat → Nat
  | 0, acc => acc
  | k + 1, acc =>
    let acc := f.mulx acc
    BinField.mulAux f a b k (if b.testBit k then acc ^^^ a else acc)

def BinField.mul (f : BinField) (a b : Nat) : Nat := f.mulAux a b (Nat.log2 f.size) 0

def BinField.pow (f : BinField) (a : Nat) : Nat → Nat
  | 0 => 1
  | n + 1 => f.mul (f.pow a n) a

/-- evaluate a word (highest-degree coefficient first) at `x` by Horner -/
def BinField.eval (f : BinField) (word : List Nat) (x : Nat) : Nat :=
  word.foldl (fun acc c => f.mul acc x ^^^ c) 0

/-- `word` (data followed by check symbols) is a codeword of the RS code with `k` check symbols and roots
    α^b, …, α^(b+k-1), α = x = 2 -/
def BinField.valid (f : BinField) (b k : Nat) (word : List Nat) : Bool :=
  (List.range k).all (fun i => f.eval word (f.pow 2 (b + i)) == 0) && word.all (· < f.size)

/-- the fields of the standards -/
def qrField : BinField := ⟨0x11D, 256⟩        -- ISO/IEC 18004: x^8+x^4+x^3+x^2+1, roots α^0…
def dmField : BinField := ⟨0x12D, 256⟩        -- ISO/IEC 16022: x^8+x^5+x^3+x^2+1, roots α^1…
def aztecField (wordSize : Nat) : Option BinField :=
  match wordSize with
  | 4 => some ⟨0x13, 16⟩
  | 6 => some ⟨0x43, 64⟩
  | 8 => some ⟨0x12D, 256⟩
  | 10 => some ⟨0x409, 1024⟩
  | 12 => some ⟨0x1069, 4096⟩
  | _ => none

/-! ### GF(929) for PDF417 -/

def powMod (a : Nat) : Nat → Nat → Nat
  | 0, _ => 1
  | n + 1, m => (powMod a n m * a) % m

def evalMod (m : Nat) (word : List Nat) (x : Nat) : Nat :=
  word.foldl (fun acc c => (acc * x + c) % m) 0

/-- PDF417: codeword sequence (length descriptor first, check words last) has roots 3^1 … 3^k mod 929 -/
def valid929 (k : Nat) (word : List Nat) : Bool :=
  (List.range k).all (fun i => evalMod 929 word (powMod 3 (i + 1) 929) == 0) && word.all (· < 929)

end BV.Spec.RS

namespace BV.Spec.RS

/-! ### polynomial arithmetic over a binary field (coefficient lists, highest degree first) -/

def stripZeros : List Nat → List Nat
  | 0 :: rest => stripZeros rest
  | l => l

def polyAddRaw (p q : List Nat) : List Nat :=
  let n := max p.length q.length
  let p' := List.replicate (n - p.length) 0 ++ p
  let q' := List.replicate (n - q.length) 0 ++ q
  List.zipWith (· ^^^ ·) p' q'

def BinField.polyMulRaw (f : BinField) (p q : List Nat) : List Nat :=
  p.foldl (fun acc a => polyAddRaw (acc ++ [0]) (q.map (f.mul a))) []

/-- equality of polynomials regardless of leading zeros -/
def polyEq (p q : List Nat) : Bool := stripZeros p == stripZeros q

def polyDeg (p : List Nat) : Int := (stripZeros p).length - 1

end BV.Spec.RS
