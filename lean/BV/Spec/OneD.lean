/-
  BV.Spec.OneD — reference decoders for the linear symbologies, written from the standards
  (ISO/IEC 15417 Code 128, ISO/IEC 16388 Code 39, AIM USS-93, Codabar (EN 798), 2 of 5, EAN/UPC (ISO/IEC 15420))
  in *element-width* representation, which is different from the module lists used by the implementation.
  No import of BV.Gen / BV.Model.
-/
import BV.Base
namespace BV.Spec.OneD
open BV

/-! ### run lengths -/

/-- run-length encoding of a module list: (colour, width) -/
def runLengths : List Bool → List (Bool × Nat)
  | [] => []
  | b :: rest =>
    match runLengths rest with
    | (c, n) :: tl => if c == b then (c, n + 1) :: tl else (b, 1) :: (c, n) :: tl
    | [] => [(b, 1)]

/-- the widths of an alternating run list that must start with a bar -/
def widthsFromBar (rs : List (Bool × Nat)) : Option (List Nat) :=
  match rs with
  | [] => some []
  | (true, _) :: _ => some (rs.map (·.2))
  | _ => none

def digitsOfString (s : String) : List Nat := s.toList.map (fun c => c.toNat - 48)

def splitEvery {α} (n : Nat) (l : List α) : List (List α) :=
  if n = 0 then [] else
  let rec go (fuel : Nat) (l : List α) : List (List α) :=
    match fuel with
    | 0 => []
    | fuel + 1 => if l.isEmpty then [] else l.take n :: go fuel (l.drop n)
  go (l.length + 1) l

/-! ### Code 128 -/

/-- ISO/IEC 15417 Table 1: element widths b s b s b s (stop: 7 elements), index = symbol value -/
def c128Widths : List String :=
  "212222 222122 222221 121223 121322 131222 122213 122312 132212 221213 221312 231212 112232 122132 122231 113222 123122 123221 223211 221132 221231 213212 223112 312131 311222 321122 321221 312212 322112 322211 212123 212321 232121 111323 131123 131321 112313 132113 132311 211313 231113 231311 112133 112331 132131 113123 113321 133121 313121 211331 231131 213113 213311 213131 311123 311321 331121 312113 312311 332111 314111 221411 431111 111224 111422 121124 121421 141122 141221 112214 112412 122114 122411 142112 142211 241211 221114 413111 241112 134111 111242 121142 121241 114212 124112 124211 411212 421112 421211 212141 214121 412121 111143 111341 131141 114113 114311 411113 411311 113141 114131 311141 411131 211412 211214 211232 2331112".splitOn " "

def c128Table : List (List Nat) := c128Widths.map digitsOfString

/-- FNC1..FNC4 placeholders of this library -/
def fnc (n : Nat) : Nat := 0xF0 + n

inductive CodeSet | A | B | C deriving DecidableEq, Repr

/-- interpret data symbol values (after start, before check) -/
def c128Interpret : CodeSet → List Nat → Option (List Nat)
  | _, [] => some []
  | .A, v :: rest =>
    if v < 64 then (c128Interpret .A rest).map (fun r => (v + 32) :: r)
    else if v < 96 then (c128Interpret .A rest).map (fun r => (v - 64) :: r)
    else if v = 96 then (c128Interpret .A rest).map (fun r => fnc 3 :: r)
    else if v = 97 then (c128Interpret .A rest).map (fun r => fnc 2 :: r)
    else if v = 99 then c128Interpret .C rest
    else if v = 100 then c128Interpret .B rest
    else if v = 101 then (c128Interpret .A rest).map (fun r => fnc 4 :: r)
    else if v = 102 then (c128Interpret .A rest).map (fun r => fnc 1 :: r)
    else none   -- 98 SHIFT is never emitted; start/stop values inside the data are invalid
  | .B, v :: rest =>
    if v < 96 then (c128Interpret .B rest).map (fun r => (v + 32) :: r)
    else if v = 96 then (c128Interpret .B rest).map (fun r => fnc 3 :: r)
    else if v = 97 then (c128Interpret .B rest).map (fun r => fnc 2 :: r)
    else if v = 99 then c128Interpret .C rest
    else if v = 100 then (c128Interpret .B rest).map (fun r => fnc 4 :: r)
    else if v = 101 then c128Interpret .A rest
    else if v = 102 then (c128Interpret .B rest).map (fun r => fnc 1 :: r)
    else none
  | .C, v :: rest =>
    if v < 100 then (c128Interpret .C rest).map (fun r => (48 + v / 10) :: (48 + v % 10) :: r)
    else if v = 100 then c128Interpret .B rest
    else if v = 101 then c128Interpret .A rest
    else if v = 102 then (c128Interpret .C rest).map (fun r => fnc 1 :: r)
    else none

def c128CheckValue (start : Nat) (dataVals : List Nat) : Nat :=
  let rec go (l : List Nat) (i : Nat) (acc : Nat) : Nat :=
    match l with
    | [] => acc
    | v :: rest => go rest (i + 1) (acc + i * v)
  (go dataVals 1 start) % 103

structure C128Info where
  runes : List Nat
  symbols : List Nat      -- start + data (+ check) values
  check : Option Nat
  deriving Repr

/-- decode a Code 128 module list -/
def c128Decode (withCheck : Bool) (bits : List Bool) : Except String C128Info := do
  if bits.length < 13 + 11 then throw "too short"
  if (bits.length - 13) % 11 ≠ 0 then throw "length is not 11n+13"
  let body := bits.take (bits.length - 13)
  let stop := bits.drop (bits.length - 13)
  if (widthsFromBar (runLengths stop)) ≠ some [2, 3, 3, 1, 1, 1, 2] then throw "stop pattern"
  let vals ← (splitEvery 11 body).mapM (fun grp =>
    match widthsFromBar (runLengths grp) with
    | some ws =>
      if ws.length ≠ 6 then throw "symbol is not 3 bars + 3 spaces"
      else match (c128Table.take 106).findIdx? (· == ws) with
        | some i => pure i
        | none => throw "unknown symbol pattern"
    | none => throw "symbol does not start with a bar")
  match vals with
  | [] => throw "no start"
  | start :: rest =>
    let set ← match start with
      | 103 => pure CodeSet.A
      | 104 => pure CodeSet.B
      | 105 => pure CodeSet.C
      | _ => throw "first symbol is not a start character"
    let (dataVals, check) ←
      if withCheck then
        match rest.getLast? with
        | none => throw "no check character"
        | some c =>
          let d := rest.dropLast
          if c ≠ c128CheckValue start d then throw "wrong modulo-103 check character"
          pure (d, some c)
      else pure (rest, none)
    match c128Interpret set dataVals with
    | some rs => pure { runes := rs, symbols := vals, check := check }
    | none => throw "invalid data symbol for the active code set"

/-! ### EAN-8 / EAN-13 -/

def eanL : List (List Bool) :=
  ["0001101", "0011001", "0010011", "0111101", "0100011", "0110001", "0101111", "0111011", "0110111", "0001011"].map
    (fun s => s.toList.map (· == '1'))
def eanR : List (List Bool) := eanL.map (fun p => p.map (!·))
def eanG : List (List Bool) := eanR.map List.reverse
/-- first-digit parity patterns, `true` = G -/
def eanParity : List (List Bool) :=
  ["LLLLLL", "LLGLGG", "LLGGLG", "LLGGGL", "LGLLGG", "LGGLLG", "LGGGLL", "LGLGLG", "LGLGGL", "LGGLGL"].map
    (fun s => s.toList.map (· == 'G'))

/-- GS1 check digit of a digit list (weights 3,1,3,… from the right) -/
def gs1Check (body : List Nat) : Nat :=
  let rec go (l : List Nat) (w : Nat) (acc : Nat) : Nat :=
    match l with
    | [] => acc
    | d :: rest => go rest (4 - w) (acc + d * w)
  (10 - (go body.reverse 3 0) % 10) % 10

def findDigit (tbl : List (List Bool)) (p : List Bool) : Option Nat := tbl.findIdx? (· == p)

/-- decode an EAN symbol to its digits (8 or 13) -/
def eanDecode (bits : List Bool) : Except String (List Nat) := do
  let guardN := [true, false, true]
  let guardC := [false, true, false, true, false]
  if bits.length = 67 then
    if bits.take 3 ≠ guardN ∨ (bits.drop 31).take 5 ≠ guardC ∨ bits.drop 64 ≠ guardN then throw "guard bars"
    let left ← (splitEvery 7 ((bits.drop 3).take 28)).mapM (fun p =>
      match findDigit eanL p with | some d => pure d | none => throw "left digit not in set L")
    let right ← (splitEvery 7 ((bits.drop 36).take 28)).mapM (fun p =>
      match findDigit eanR p with | some d => pure d | none => throw "right digit not in set R")
    pure (left ++ right)
  else if bits.length = 95 then
    if bits.take 3 ≠ guardN ∨ (bits.drop 45).take 5 ≠ guardC ∨ bits.drop 92 ≠ guardN then throw "guard bars"
    let left ← (splitEvery 7 ((bits.drop 3).take 42)).mapM (fun p =>
      match findDigit eanL p, findDigit eanG p with
      | some d, _ => pure (d, false)
      | none, some d => pure (d, true)
      | none, none => throw "left digit in neither L nor G")
    let first ← match eanParity.findIdx? (· == left.map (·.2)) with
      | some d => pure d
      | none => throw "invalid parity pattern"
    let right ← (splitEvery 7 ((bits.drop 50).take 42)).mapM (fun p =>
      match findDigit eanR p with | some d => pure d | none => throw "right digit not in set R")
    pure (first :: left.map (·.1) ++ right)
  else throw "length is neither 67 nor 95 modules"

/-! ### Code 39 -/

def c39Chars : List Char := "1234567890ABCDEFGHIJKLMNOPQRSTUVWXYZ-. *".toList

/-- 2-of-5 bar code of a digit with weights 1,2,4,7,0 (two wide bars; 11 stands for 0) -/
def twoOfFive (d : Nat) : List Bool :=
  let target := if d = 0 then 11 else d
  let ws := [1, 2, 4, 7, 0]
  -- the unique pair of positions whose weights sum to target
  let pairs := (List.range 5).flatMap (fun i => (List.range 5).filterMap (fun j =>
    if i < j ∧ ws.getD i 0 + ws.getD j 0 = target then some (i, j) else none))
  match pairs with
  | (i, j) :: _ => (List.range 5).map (fun k => k = i ∨ k = j)
  | [] => []

/-- the nine elements (bar, space, bar, …, bar) of a Code 39 character as wide flags -/
def c39Pattern (c : Char) : Option (List Bool) :=
  match c39Chars.findIdx? (· == c) with
  | some i =>
    let g := i / 10
    let d := (i % 10 + 1) % 10
    let bars := twoOfFive d
    let wideSpace := match g with | 0 => 1 | 1 => 2 | 2 => 3 | _ => 0   -- space #2,#3,#4,#1 (0-based 1,2,3,0)
    let spaces := (List.range 4).map (· == wideSpace)
    some [bars.getD 0 false, spaces.getD 0 false, bars.getD 1 false, spaces.getD 1 false, bars.getD 2 false,
          spaces.getD 2 false, bars.getD 3 false, spaces.getD 3 false, bars.getD 4 false]
  | none =>
    match "$/+%".toList.findIdx? (· == c) with
    | some k =>
      let narrowSpace := 3 - k    -- space #4,#3,#2,#1 narrow for $ / + %
      let spaces := (List.range 4).map (· != narrowSpace)
      some [false, spaces.getD 0 false, false, spaces.getD 1 false, false, spaces.getD 2 false, false,
            spaces.getD 3 false, false]
    | none => none

def c39Alphabet : List Char := "0123456789ABCDEFGHIJKLMNOPQRSTUVWXYZ-. $/+%".toList
def c39Value (c : Char) : Option Nat := c39Alphabet.findIdx? (· == c)

def c39AllChars : List Char := c39Alphabet ++ ['*']

/-- decode one 9-element wide-flag pattern -/
def c39Lookup (p : List Bool) : Option Char := c39AllChars.find? (fun c => c39Pattern c == some p)

/-- resolve the full-ASCII shift pairs of ISO/IEC 16388 (with the four shift characters given) -/
def resolvePairs (sDollar sPercent sSlash sPlus : Nat) : Nat → List Nat → Option (List Nat)
  | _, [] => some []
  | 0, _ => none
  | fuel + 1, c :: rest =>
    let isShift := c = sDollar ∨ c = sPercent ∨ c = sSlash ∨ c = sPlus
    if isShift then
      match rest with
      | [] => none
      | l :: rest' =>
        if l < 65 ∨ l > 90 then none else
        let k := l - 65
        let v : Option Nat :=
          if c = sDollar then some (k + 1)
          else if c = sPlus then some (97 + k)
          else if c = sSlash then
            (if k ≤ 14 then some (33 + k) else if l = 90 then some 58 else none)
          else -- percent
            (if k ≤ 4 then some (27 + k) else if k ≤ 9 then some (59 + k - 5) else if k ≤ 14 then some (91 + k - 10)
             else if k ≤ 19 then some (123 + k - 15) else if l = 85 then some 0 else if l = 86 then some 64
             else if l = 87 then some 96 else none)
        match v, resolvePairs sDollar sPercent sSlash sPlus fuel rest' with
        | some v, some r => some (v :: r)
        | _, _ => none
    else (resolvePairs sDollar sPercent sSlash sPlus fuel rest).map (c :: ·)

structure C39Info where
  text : List Nat           -- decoded text as runes (pairs resolved in full-ASCII mode)
  basic : List Nat          -- the data characters of the symbol (basic alphabet)
  check : Option Nat
  deriving Repr

/-- decode a Code 39 module list -/
def c39Decode (withCheck fullASCII : Bool) (bits : List Bool) : Except String C39Info := do
  if (bits.length + 1) % 13 ≠ 0 then throw "length is not 13n-1"
  let groups := splitEvery 13 (bits ++ [false])
  let chars ← groups.mapM (fun grp => do
    if grp.getLastD true then throw "inter-character gap is not a narrow space"
    let ws ← match widthsFromBar (runLengths grp.dropLast) with
      | some ws => pure ws
      | none => throw "character does not start with a bar"
    if ws.length ≠ 9 ∨ ws.any (fun w => w ≠ 1 ∧ w ≠ 2) then throw "character is not 9 narrow/wide elements"
    match c39Lookup (ws.map (· == 2)) with
    | some c => pure c
    | none => throw "unknown character pattern")
  if chars.length < 2 ∨ chars.head? ≠ some '*' ∨ chars.getLast? ≠ some '*' then throw "start/stop"
  let inner := (chars.drop 1).dropLast
  if inner.any (· == '*') then throw "start/stop character inside the data"
  let (data, check) ←
    if withCheck then
      match inner.getLast? with
      | none => throw "no check character"
      | some c =>
        let d := inner.dropLast
        let sum := (d.map (fun ch => (c39Value ch).getD 0)).foldl (· + ·) 0
        if c39Value c ≠ some (sum % 43) then throw "wrong modulo-43 check character"
        pure (d, some (sum % 43))
    else pure (inner, none)
  let basic := data.map Char.toNat
  if fullASCII then
    match resolvePairs 36 37 47 43 (basic.length + 1) basic with
    | some t => pure { text := t, basic := basic, check := check }
    | none => throw "invalid full-ASCII pair"
  else pure { text := basic, basic := basic, check := check }

/-! ### Code 93 -/

def c93Widths : List (List Nat) :=
  ("131112 111213 111312 111411 121113 121212 121311 111114 131211 141111 211113 211212 211311 221112 221211 231111 112113 112212 112311 122112 132111 111123 111222 111321 121122 131121 212112 212211 211122 211221 221121 222111 112122 112221 122121 123111 121131 311112 311211 321111 112131 113121 211131 121221 312111 311121 122211 111141".splitOn " ").map digitsOfString

/-- value -> rune: 0-9, A-Z, - . space $ / + %, ($) (%) (/) (+) as U+00F1..U+00F4, * = 47 -/
def c93Rune (v : Nat) : Nat :=
  if v < 43 then (c39Alphabet.getD v ' ').toNat
  else if v < 47 then 0xF1 + (v - 43)
  else 42

def c93Check (vals : List Nat) (maxWeight : Nat) : Nat :=
  let rec go (l : List Nat) (w : Nat) (acc : Nat) : Nat :=
    match l with
    | [] => acc
    | v :: rest => go rest (if w + 1 > maxWeight then 1 else w + 1) (acc + v * w)
  (go vals.reverse 1 0) % 47

structure C93Info where
  text : List Nat
  basic : List Nat
  deriving Repr

def c93Decode (withCheck fullASCII : Bool) (bits : List Bool) : Except String C93Info := do
  if bits.length < 19 ∨ (bits.length - 1) % 9 ≠ 0 then throw "length is not 9n+1"
  if bits.getLastD false ≠ true then throw "termination bar"
  let vals ← (splitEvery 9 bits.dropLast).mapM (fun grp =>
    match widthsFromBar (runLengths grp) with
    | some ws =>
      match c93Widths.findIdx? (· == ws) with
      | some v => pure v
      | none => throw "unknown character pattern"
    | none => throw "character does not start with a bar")
  if vals.length < 2 ∨ vals.head? ≠ some 47 ∨ vals.getLast? ≠ some 47 then throw "start/stop"
  let inner := (vals.drop 1).dropLast
  if inner.any (· == 47) then throw "start/stop character inside the data"
  let data ←
    if withCheck then
      if inner.length < 2 then throw "no check characters"
      else
        let d := inner.take (inner.length - 2)
        let c := inner.getD (inner.length - 2) 0
        let k := inner.getD (inner.length - 1) 0
        if c ≠ c93Check d 20 then throw "wrong check character C"
        if k ≠ c93Check (d ++ [c]) 15 then throw "wrong check character K"
        pure d
    else pure inner
  let basic := data.map c93Rune
  if fullASCII then
    match resolvePairs 0xF1 0xF2 0xF3 0xF4 (basic.length + 1) basic with
    | some t => pure { text := t, basic := basic }
    | none => throw "invalid full-ASCII pair"
  else pure { text := basic, basic := basic }

/-! ### Codabar -/

/-- 7 elements b s b s b s b, 1 = wide -/
def codabarTable : List (Char × String) :=
  [('0', "0000011"), ('1', "0000110"), ('2', "0001001"), ('3', "1100000"), ('4', "0010010"), ('5', "1000010"),
   ('6', "0100001"), ('7', "0100100"), ('8', "0110000"), ('9', "1001000"), ('-', "0001100"), ('$', "0011000"),
   (':', "1000101"), ('/', "1010001"), ('.', "1010100"), ('+', "0010101"), ('A', "0011010"), ('B', "0101001"),
   ('C', "0001011"), ('D', "0001110")]

def codabarDecode (bits : List Bool) : Except String (List Nat) := do
  let rs := runLengths bits
  let ws ← match widthsFromBar rs with
    | some ws => pure ws
    | none => throw "does not start with a bar"
  if (ws.length + 1) % 8 ≠ 0 then throw "number of elements is not 8n-1"
  if ws.any (fun w => w ≠ 1 ∧ w ≠ 2) then throw "element is neither narrow nor wide"
  let chars ← (splitEvery 8 (ws ++ [1])).mapM (fun grp => do
    if grp.getLastD 0 ≠ 1 then throw "inter-character gap is not narrow"
    let key := String.ofList ((grp.take 7).map (fun w => if w = 2 then '1' else '0'))
    match codabarTable.find? (·.2 == key) with
    | some (c, _) => pure c.toNat
    | none => throw "unknown character pattern")
  let isSS := fun (c : Nat) => 65 ≤ c ∧ c ≤ 68
  if chars.length < 2 then throw "fewer than two characters"
  if ¬ isSS (chars.headD 0) ∨ ¬ isSS (chars.getLastD 0) then throw "start/stop character is not A-D"
  if ((chars.drop 1).dropLast).any (fun c => isSS c) then throw "start/stop character inside the data"
  pure chars

/-! ### 2 of 5 -/

/-- digit from five wide flags with weights 1,2,4,7,0: exactly two wide, 11 -> 0 -/
def tofDigit (wide : List Bool) : Option Nat :=
  if wide.length ≠ 5 ∨ (wide.filter id).length ≠ 2 then none
  else
    let s := (List.zipWith (fun w b => if b then w else 0) [1, 2, 4, 7, 0] wide).foldl (· + ·) 0
    if s = 11 then some 0 else if 1 ≤ s ∧ s ≤ 9 then some s else none

/-- standard (industrial) 2 of 5: bars carry the code, spaces are narrow; start 11011010, stop 1101011 -/
def tofDecodeStandard (bits : List Bool) : Except String (List Nat) := do
  let ws ← match widthsFromBar (runLengths bits) with
    | some ws => pure ws
    | none => throw "does not start with a bar"
  if ws.take 6 ≠ [2, 1, 2, 1, 1, 1] then throw "start pattern"
  if ws.length < 11 ∨ ws.drop (ws.length - 5) ≠ [2, 1, 1, 1, 2] then throw "stop pattern"
  let body := (ws.drop 6).take (ws.length - 11)
  if body.length % 10 ≠ 0 then throw "data elements are not groups of ten"
  (splitEvery 10 body).mapM (fun grp => do
    let bars := (List.range 5).map (fun i => grp.getD (2 * i) 0)
    let spaces := (List.range 5).map (fun i => grp.getD (2 * i + 1) 0)
    if spaces.any (· ≠ 1) then throw "space is not narrow"
    if bars.any (fun w => w ≠ 1 ∧ w ≠ 3) then throw "bar is neither narrow nor wide"
    match tofDigit (bars.map (· == 3)) with
    | some d => pure (48 + d)
    | none => throw "not a 2-of-5 pattern")

/-- interleaved 2 of 5: start 1010, stop 11101 -/
def tofDecodeInterleaved (bits : List Bool) : Except String (List Nat) := do
  let ws ← match widthsFromBar (runLengths bits) with
    | some ws => pure ws
    | none => throw "does not start with a bar"
  if ws.take 4 ≠ [1, 1, 1, 1] then throw "start pattern"
  if ws.length < 7 ∨ ws.drop (ws.length - 3) ≠ [3, 1, 1] then throw "stop pattern"
  let body := (ws.drop 4).take (ws.length - 7)
  if body.length % 10 ≠ 0 then throw "data elements are not groups of ten"
  if body.any (fun w => w ≠ 1 ∧ w ≠ 3) then throw "element is neither narrow nor wide"
  let pairs ← (splitEvery 10 body).mapM (fun grp => do
    let bars := (List.range 5).map (fun i => grp.getD (2 * i) 0 == 3)
    let spaces := (List.range 5).map (fun i => grp.getD (2 * i + 1) 0 == 3)
    match tofDigit bars, tofDigit spaces with
    | some a, some b => pure [48 + a, 48 + b]
    | _, _ => throw "not a 2-of-5 pattern")
  pure pairs.flatten

/-- the 3-1 weighted sum from the right, including the last digit -/
def tofWeightedSum (ds : List Nat) : Nat :=
  let rec go (l : List Nat) (w : Nat) (acc : Nat) : Nat :=
    match l with
    | [] => acc
    | d :: rest => go rest (4 - w) (acc + d * w)
  go ds.reverse 1 0

end BV.Spec.OneD
