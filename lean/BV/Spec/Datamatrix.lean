/-
  BV.Spec.Datamatrix — reference decoder for ISO/IEC 16022 ECC 200 square symbols, written from the standard:

  * symbol attributes: the ECC 200 square-symbol attribute table (24 sizes);
  * finder pattern: every data region is bordered by a solid dark "L" (left, bottom) and an alternating
    clock track (top, right);
  * module placement: the placement program of Annex F (`module`, `utah`, `corner1`…`corner4`, the main
    `ECC200` loop and the fixed lower-right pattern), producing for every mapping-matrix module the number
    `10*chr + bit` exactly as the standard's `array[]` does (chr = 1.., bit 1 = most significant … 8 = least);
    the decoder *reads* the codewords through that map (the implementation writes bits while it walks);
  * error correction: interleaved Reed–Solomon blocks over GF(256)/x^8+x^5+x^3+x^2+1, roots α^1…α^k,
    validity by evaluation (`BV.Spec.RS`);
  * ASCII encodation with the 253-state pad randomisation.

  Independent of the implementation: imports neither `BV.Gen` nor `BV.Model`.
-/
import BV.Base
import BV.Spec.RS
namespace BV.Spec.Datamatrix
open BV BV.Spec.RS

/-! ### symbol attributes (ISO/IEC 16022, ECC 200 square symbol attribute table) -/

structure Attr where
  size : Nat          -- symbol size: rows = columns (including finder/clock modules)
  regionSize : Nat    -- data region size (rows = columns)
  regionsPerSide : Nat -- data regions: 1, 2×2, 4×4, 6×6
  mapping : Nat       -- mapping matrix size
  dataCW : Nat        -- total data codewords
  eccCW : Nat         -- total error-correction codewords
  blocks : Nat        -- interleaved Reed–Solomon blocks
  deriving Repr, DecidableEq, Inhabited

def attrTable : List Attr :=
  [ ⟨10, 8, 1, 8, 3, 5, 1⟩,        ⟨12, 10, 1, 10, 5, 7, 1⟩,      ⟨14, 12, 1, 12, 8, 10, 1⟩,
    ⟨16, 14, 1, 14, 12, 12, 1⟩,    ⟨18, 16, 1, 16, 18, 14, 1⟩,    ⟨20, 18, 1, 18, 22, 18, 1⟩,
    ⟨22, 20, 1, 20, 30, 20, 1⟩,    ⟨24, 22, 1, 22, 36, 24, 1⟩,    ⟨26, 24, 1, 24, 44, 28, 1⟩,
    ⟨32, 14, 2, 28, 62, 36, 1⟩,    ⟨36, 16, 2, 32, 86, 42, 1⟩,    ⟨40, 18, 2, 36, 114, 48, 1⟩,
    ⟨44, 20, 2, 40, 144, 56, 1⟩,   ⟨48, 22, 2, 44, 174, 68, 1⟩,   ⟨52, 24, 2, 48, 204, 84, 2⟩,
    ⟨64, 14, 4, 56, 280, 112, 2⟩,  ⟨72, 16, 4, 64, 368, 144, 4⟩,  ⟨80, 18, 4, 72, 456, 192, 4⟩,
    ⟨88, 20, 4, 80, 576, 224, 4⟩,  ⟨96, 22, 4, 88, 696, 272, 4⟩,  ⟨104, 24, 4, 96, 816, 336, 6⟩,
    ⟨120, 18, 6, 108, 1050, 408, 6⟩, ⟨132, 20, 6, 120, 1304, 496, 8⟩, ⟨144, 22, 6, 132, 1558, 620, 10⟩ ]

/-- data codewords carried by interleaved block `b` (0-based).  All blocks are equal except in the 144×144
    symbol, whose first eight blocks carry 156 and last two 155 data codewords. -/
def Attr.blockData (a : Attr) (b : Nat) : Nat :=
  if a.size = 144 then (if b < 8 then 156 else 155) else a.dataCW / a.blocks

/-- check codewords per block -/
def Attr.blockEcc (a : Attr) : Nat := a.eccCW / a.blocks

/-- internal consistency of the transcription: the columns of the table determine each other -/
def Attr.consistent (a : Attr) : Bool :=
  a.regionsPerSide * (a.regionSize + 2) == a.size &&
  a.regionsPerSide * a.regionSize == a.mapping &&
  (a.mapping * a.mapping) / 8 == a.dataCW + a.eccCW &&
  a.eccCW % a.blocks == 0 &&
  ((List.range a.blocks).map a.blockData).sum == a.dataCW

theorem attrTable_consistent : attrTable.all Attr.consistent = true := by decide

theorem attrTable_length : attrTable.length = 24 := by decide

/-! ### finder pattern and mapping matrix -/

/-- Border of the data region whose top-left border module is at (ox, oy), `bs` = region size + 2:
    left column and bottom row solid dark; top row alternating starting dark at the left; right column
    alternating ending dark at the bottom (bs is even). -/
def regionBorderOk (dark : Nat → Nat → Bool) (ox oy bs : Nat) : Bool :=
  (List.range bs).all (fun k =>
    dark ox (oy + k) &&
    dark (ox + k) (oy + bs - 1) &&
    (dark (ox + k) oy == (k % 2 == 0)) &&
    (dark (ox + bs - 1) (oy + k) == (k % 2 == 1)))

def finderOk (a : Attr) (dark : Nat → Nat → Bool) : Bool :=
  let bs := a.regionSize + 2
  (List.range a.regionsPerSide).all (fun ry =>
    (List.range a.regionsPerSide).all (fun rx => regionBorderOk dark (rx * bs) (ry * bs) bs))

/-- module (row, col) of the mapping matrix = the data regions with their borders removed and butted together -/
def mappingModule (a : Attr) (dark : Nat → Nat → Bool) (row col : Nat) : Bool :=
  let rs := a.regionSize
  dark ((col / rs) * (rs + 2) + 1 + col % rs) ((row / rs) * (rs + 2) + 1 + row % rs)

/-! ### Annex F placement program

  `array[row*ncol+col] = 10*chr + bit`; 0 = not yet visited; 1 = fixed dark module of the lower-right pattern. -/

structure Grid where
  nrow : Nat
  ncol : Nat
  arr : Array Nat

/-- `module(row, col, chr, bit)`: wrap negative coordinates, then record the assignment -/
def Grid.module (g : Grid) (row col : Int) (chr bit : Nat) : Grid :=
  let (row, col) :=
    if row < 0 then (row + g.nrow, col + (4 - (((g.nrow + 4) % 8 : Nat) : Int))) else (row, col)
  let (row, col) :=
    if col < 0 then (row + (4 - (((g.ncol + 4) % 8 : Nat) : Int)), col + g.ncol) else (row, col)
  { g with arr := g.arr.setIfInBounds (row * g.ncol + col).toNat (10 * chr + bit) }

/-- `utah(row, col, chr)`: the eight modules of the standard "Utah" shaped codeword -/
def Grid.utah (g : Grid) (row col : Int) (chr : Nat) : Grid :=
  let g := g.module (row - 2) (col - 2) chr 1
  let g := g.module (row - 2) (col - 1) chr 2
  let g := g.module (row - 1) (col - 2) chr 3
  let g := g.module (row - 1) (col - 1) chr 4
  let g := g.module (row - 1) col chr 5
  let g := g.module row (col - 2) chr 6
  let g := g.module row (col - 1) chr 7
  g.module row col chr 8

/-- place the eight bits of `chr` on an explicit list of positions (bits 1…8 in order) -/
def Grid.shape (g : Grid) (ps : List (Int × Int)) (chr : Nat) : Grid :=
  (ps.zipIdx).foldl (fun g (p, k) => g.module p.1 p.2 chr (k + 1)) g

def Grid.corner1 (g : Grid) (chr : Nat) : Grid :=
  let n : Int := g.nrow
  let m : Int := g.ncol
  g.shape [(n-1, 0), (n-1, 1), (n-1, 2), (0, m-2), (0, m-1), (1, m-1), (2, m-1), (3, m-1)] chr

def Grid.corner2 (g : Grid) (chr : Nat) : Grid :=
  let n : Int := g.nrow
  let m : Int := g.ncol
  g.shape [(n-3, 0), (n-2, 0), (n-1, 0), (0, m-4), (0, m-3), (0, m-2), (0, m-1), (1, m-1)] chr

def Grid.corner3 (g : Grid) (chr : Nat) : Grid :=
  let n : Int := g.nrow
  let m : Int := g.ncol
  g.shape [(n-3, 0), (n-2, 0), (n-1, 0), (0, m-2), (0, m-1), (1, m-1), (2, m-1), (3, m-1)] chr

def Grid.corner4 (g : Grid) (chr : Nat) : Grid :=
  let n : Int := g.nrow
  let m : Int := g.ncol
  g.shape [(n-1, 0), (n-1, m-1), (0, m-3), (0, m-2), (0, m-1), (1, m-3), (1, m-2), (1, m-1)] chr

/-- `!array[row*ncol+col]` (only evaluated for 0 ≤ row, 0 ≤ col; an index beyond the array counts as visited) -/
def Grid.free (g : Grid) (row col : Int) : Bool :=
  g.arr.getD (row * g.ncol + col).toNat 1 == 0

/-- walking state of the `ECC200` routine -/
structure Walk where
  g : Grid
  chr : Nat
  row : Int
  col : Int

/-- `do { if (row<nrow && col>=0 && !array[..]) utah(row,col,chr++); row -= 2; col += 2; } while (row>=0 && col<ncol);`
    Fuel bounds the number of rounds; if it ran out the array stays incomplete and `placement` rejects it. -/
def sweepUp : Nat → Walk → Walk
  | 0, w => w
  | fuel + 1, w =>
    let w := if w.row < w.g.nrow ∧ w.col ≥ 0 ∧ w.g.free w.row w.col
             then { w with g := w.g.utah w.row w.col w.chr, chr := w.chr + 1 } else w
    let w := { w with row := w.row - 2, col := w.col + 2 }
    if w.row ≥ 0 ∧ w.col < w.g.ncol then sweepUp fuel w else w

/-- `do { if (row>=0 && col<ncol && !array[..]) utah(row,col,chr++); row += 2; col -= 2; } while (row<nrow && col>=0);` -/
def sweepDown : Nat → Walk → Walk
  | 0, w => w
  | fuel + 1, w =>
    let w := if w.row ≥ 0 ∧ w.col < w.g.ncol ∧ w.g.free w.row w.col
             then { w with g := w.g.utah w.row w.col w.chr, chr := w.chr + 1 } else w
    let w := { w with row := w.row + 2, col := w.col - 2 }
    if w.row < w.g.nrow ∧ w.col ≥ 0 then sweepDown fuel w else w

/-- the outer `do { … } while ((row < nrow) || (col < ncol));` -/
def mainLoop : Nat → Walk → Walk
  | 0, w => w
  | fuel + 1, w =>
    let n : Int := w.g.nrow
    let m : Int := w.g.ncol
    let corner (c : Bool) (f : Grid → Nat → Grid) (w : Walk) : Walk :=
      if c then { w with g := f w.g w.chr, chr := w.chr + 1 } else w
    let w := corner (w.row = n ∧ w.col = 0) Grid.corner1 w
    let w := corner (w.row = n - 2 ∧ w.col = 0 ∧ w.g.ncol % 4 ≠ 0) Grid.corner2 w
    let w := corner (w.row = n - 2 ∧ w.col = 0 ∧ w.g.ncol % 8 = 4) Grid.corner3 w
    let w := corner (w.row = n + 4 ∧ w.col = 2 ∧ w.g.ncol % 8 = 0) Grid.corner4 w
    let w := sweepUp (w.g.nrow + w.g.ncol) w
    let w := { w with row := w.row + 1, col := w.col + 3 }
    let w := sweepDown (w.g.nrow + w.g.ncol) w
    let w := { w with row := w.row + 3, col := w.col + 1 }
    if w.row < n ∨ w.col < m then mainLoop fuel w else w

/-- The `ECC200` routine: returns the filled array and the number of codewords placed.
    Succeeds only if the walk assigned every module exactly once: `8 * chars` modules carry a codeword bit
    (each of the `8 * chars` calls of `module` wrote a different value, so this count is reached iff no call
    overwrote another or fell outside the array) and the unvisited rest is either empty or exactly the
    lower-right 2×2 block, which then receives the fixed pattern (dark on its diagonal). -/
def placement (nrow ncol : Nat) : Option (Array Nat × Nat) :=
  let g0 : Grid := { nrow := nrow, ncol := ncol, arr := Array.replicate (nrow * ncol) 0 }
  let w := mainLoop (nrow + ncol) { g := g0, chr := 1, row := 4, col := 0 }
  let chars := w.chr - 1
  let arr := w.g.arr
  let placed := arr.foldl (fun n v => if v ≥ 10 then n + 1 else n) 0
  let last := nrow * ncol - 1
  if nrow < 2 ∨ ncol < 2 ∨ placed ≠ 8 * chars then none
  else if arr.getD last 0 == 0 then
    -- "if the lower righthand corner is untouched, fill in fixed pattern"
    if placed + 4 = nrow * ncol ∧ arr.getD (last - 1) 1 == 0 ∧ arr.getD (last - ncol) 1 == 0 ∧
        arr.getD (last - ncol - 1) 1 == 0 then
      some ((arr.setIfInBounds last 1).setIfInBounds (last - ncol - 1) 1, chars)
    else none
  else if placed = nrow * ncol then some (arr, chars)
  else none

/-- read the codewords of a mapping matrix through the placement array; `none` if the fixed pattern is wrong -/
def readCodewords (nrow ncol : Nat) (arr : Array Nat) (chars : Nat) (mm : Nat → Nat → Bool) : Option (Array Nat) :=
  (List.range (nrow * ncol)).foldlM (fun (cw : Array Nat) i =>
    let v := arr.getD i 0
    let d := mm (i / ncol) (i % ncol)
    if v ≥ 10 then
      let chr := v / 10
      let bit := v % 10
      some (if d then cw.modify (chr - 1) (· + 2 ^ (8 - bit)) else cw)
    else if d == (v == 1) then some cw    -- fixed pattern: 1 = dark, 0 = light
    else none) (Array.replicate chars 0)

/-! ### interleaved Reed–Solomon blocks -/

/-- elements b, b+n, b+2n, … of a list -/
def everyNth (n b : Nat) (l : List Nat) : List Nat :=
  (l.zipIdx).filterMap (fun (v, i) => if i % n = b then some v else none)

/-- block `b`: its data codewords followed by its check codewords -/
def blockWord (a : Attr) (data ecc : List Nat) (b : Nat) : List Nat × List Nat :=
  (everyNth a.blocks b data, everyNth a.blocks b ecc)

def blocksOk (a : Attr) (data ecc : List Nat) : Bool :=
  (List.range a.blocks).all (fun b =>
    let (d, e) := blockWord a data ecc b
    d.length == a.blockData b && e.length == a.blockEcc &&
    dmField.valid 1 a.blockEcc (d ++ e))

/-! ### ASCII encodation -/

/-- 253-state randomised pad codeword at 1-based codeword position `pos` -/
def padValue (pos : Nat) : Nat :=
  let r := (149 * pos) % 253 + 1
  let t := 129 + r
  if t ≤ 254 then t else t - 254

def twoDigits (v : Nat) : Bytes := [UInt8.ofNat (48 + v / 10), UInt8.ofNat (48 + v % 10)]

/-- Decode the data codewords from 1-based position `pos` on.  Returns content and the number of pad codewords.
    Only what an ASCII-only encoder may emit is accepted: 1–128 (ASCII value + 1), 130–229 (digit pair 00–99),
    235 (upper shift: the next codeword, 1–128, stands for value − 1 + 128), 129 (pad: it and everything after
    it is padding, the followers randomised).  Latches to C40/Base 256/X12/Text/EDIFACT (230, 231, 238–240),
    FNC1, structured append, reader programming, macros, ECI (232–234, 236, 237, 241) and the unused values
    (0, 242–255) are rejected. -/
def decodeAscii : Nat → List Nat → Except String (Bytes × Nat)
  | _, [] => .ok ([], 0)
  | pos, c :: rest =>
    if c = 129 then
      if (rest.zipIdx).all (fun (v, i) => v == padValue (pos + 1 + i)) then .ok ([], 1 + rest.length)
      else .error "pad codewords not the 253-state sequence"
    else if 1 ≤ c ∧ c ≤ 128 then
      (decodeAscii (pos + 1) rest).map (fun (s, p) => (UInt8.ofNat (c - 1) :: s, p))
    else if 130 ≤ c ∧ c ≤ 229 then
      (decodeAscii (pos + 1) rest).map (fun (s, p) => (twoDigits (c - 130) ++ s, p))
    else if c = 235 then
      match rest with
      | d :: rest' =>
        if 1 ≤ d ∧ d ≤ 128 then
          (decodeAscii (pos + 2) rest').map (fun (s, p) => (UInt8.ofNat (d - 1 + 128) :: s, p))
        else .error s!"upper shift followed by codeword {d}"
      | [] => .error "upper shift at end of data"
    else .error s!"codeword {c} outside ASCII encodation"
termination_by _ l => l.length
decreasing_by all_goals simp_wf <;> omega

/-! ### the decoder -/

structure Info where
  rows : Nat
  cols : Nat
  regions : Nat          -- number of data regions (regionsPerSide²)
  regionsPerSide : Nat
  mappingSize : Nat
  dataCodewords : Nat
  eccCodewords : Nat
  blocks : Nat
  padCount : Nat
  content : Bytes
  deriving Repr, DecidableEq

def decode (w h : Nat) (dark : Nat → Nat → Bool) : Except String Info := do
  if w ≠ h then throw "not square"
  let a ← match attrTable.find? (fun a => a.size == w) with
    | some a => pure a
    | none => throw "size is not one of the 24 ECC 200 square sizes"
  if !finderOk a dark then throw "finder L / clock track"
  let n := a.mapping
  let (arr, chars) ← match placement n n with
    | some r => pure r
    | none => throw "placement does not tile the mapping matrix"
  if chars ≠ a.dataCW + a.eccCW then throw "codeword count"
  let cw ← match readCodewords n n arr chars (mappingModule a dark) with
    | some cw => pure cw.toList
    | none => throw "fixed lower-right pattern"
  let data := cw.take a.dataCW
  let ecc := cw.drop a.dataCW
  if !blocksOk a data ecc then throw "Reed-Solomon block invalid"
  let (content, pad) ← decodeAscii 1 data
  pure { rows := h, cols := w, regions := a.regionsPerSide * a.regionsPerSide, regionsPerSide := a.regionsPerSide,
         mappingSize := n, dataCodewords := a.dataCW, eccCodewords := a.eccCW, blocks := a.blocks,
         padCount := pad, content := content }

def Info.line (i : Info) : String :=
  s!"ok content={toHexField i.content} rows={i.rows} cols={i.cols} regions={i.regions} mapping={i.mappingSize} data={i.dataCodewords} ecc={i.eccCodewords} blocks={i.blocks} pad={i.padCount}"

end BV.Spec.Datamatrix
