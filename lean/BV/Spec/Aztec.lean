/-
  BV.Spec.Aztec — reference decoder for Aztec Code symbols, written from ISO/IEC 24778 (not from the Go code).

  Geometry is expressed in offsets from the centre module.  A symbol is a stack of square rings around the
  centre: the bullseye (rings 0..4 compact, 0..6 full-range; dark iff the ring number is even), the ring that
  carries the orientation marks and the mode message (ring 5 / 7), then `layers` data layers, each two
  rings thick.  In full-range symbols every row and column whose offset is a multiple of 16 is a reference
  grid line that the other structures skip; "lattice" offsets count only the non-grid positions
  (±1, ±2, … without 0), `real` maps them to true offsets.  Compact symbols have no grid, lattice = real.
-/
import BV.Base
import BV.Spec.RS
namespace BV.Spec.Aztec
open BV

structure Info where
  compact : Bool
  layers : Nat
  size : Nat
  wordSize : Nat
  dataWords : Nat
  checkWords : Nat
  /-- length of the un-stuffed data bit stream (payload bits plus fewer than `wordSize` trailing pad bits) -/
  streamBits : Nat
  content : Bytes
  deriving Repr

/-! ### geometry -/

/-- ring number of the mode message -/
def modeRing (compact : Bool) : Nat := if compact then 5 else 7

/-- true offset of a lattice offset: in full-range symbols a grid line follows every 15 lattice positions -/
def real (compact : Bool) (u : Int) : Int :=
  if compact then u
  else
    let a := u.natAbs
    let r : Int := a + (a - 1) / 15
    if u < 0 then -r else r

/-- outermost true offset of a symbol with `layers` layers -/
def halfSize (compact : Bool) (layers : Nat) : Nat :=
  (real compact ((modeRing compact + 2 * layers : Nat) : Int)).toNat

/-- side length: compact 15, 19, 23, 27; full-range 19 … 151 -/
def symbolSize (compact : Bool) (layers : Nat) : Nat := 2 * halfSize compact layers + 1

/-- codeword size by number of layers -/
def wordSizeOf (layers : Nat) : Nat :=
  if layers ≤ 2 then 6 else if layers ≤ 8 then 8 else if layers ≤ 22 then 10 else 12

def cheb (p : Int × Int) : Nat := max p.1.natAbs p.2.natAbs

/-- all offsets of the square of half-width `r` -/
def square (r : Nat) : List (Int × Int) :=
  let axis := (List.range (2 * r + 1)).map (fun (t : Nat) => (t : Int) - r)
  axis.flatMap (fun y => axis.map (fun x => (x, y)))

/-- the ring at distance `r ≥ 1`, clockwise from the top-left corner (x to the right, y downwards) -/
def ringWalk (r : Nat) : List (Int × Int) :=
  let R : Int := r
  let side := (List.range (2 * r)).map (fun (t : Nat) => (t : Int))
  side.map (fun t => (-R + t, -R)) ++ side.map (fun t => (R, -R + t))
    ++ side.map (fun t => (R - t, R)) ++ side.map (fun t => (-R, R - t))

/-- position of a module of a ring along its side, as a distance from the middle of the side -/
def alongSide (p : Int × Int) : Nat := min p.1.natAbs p.2.natAbs

/-- the three modules at each corner of the mode ring are orientation marks -/
def isOrientation (r : Nat) (p : Int × Int) : Bool := alongSide p + 1 ≥ r

/-- the dark orientation modules: three at the top-left, two at the top-right, one at the bottom-right -/
def orientationDark (r : Nat) : List (Int × Int) :=
  let R : Int := r
  [(-R, -R), (-R + 1, -R), (-R, -R + 1), (R, -R), (R, -R + 1), (R, R - 1)]

/-- the modules of the mode message in reading order (clockwise from the top-left); in full-range
    symbols the middle of each side belongs to the reference grid -/
def modeModules (compact : Bool) : List (Int × Int) :=
  let r := modeRing compact
  (ringWalk r).filter (fun p => !isOrientation r p && (compact || alongSide p != 0))

/-- quarter turn that maps the left side of a layer onto its bottom side, the bottom side onto the right
    side and so on (counter-clockwise on the page) -/
def turn (p : Int × Int) : Int × Int := (p.2, -p.1)

/-- lattice offsets from `-ρ` to `ρ` in increasing order (no 0 in full-range symbols) -/
def latticeAxis (compact : Bool) (ρ : Nat) : List Int :=
  ((List.range (2 * ρ + 1)).map (fun (t : Nat) => (t : Int) - ρ)).filter (fun u => compact || u != 0)

/-- one data layer with outer lattice radius `ρ`: dominoes (outer module first) down the left side starting
    in the top-left corner and stopping two short of the bottom, then the same along the other three
    sides, each a quarter turn further -/
def layerModules (compact : Bool) (ρ : Nat) : List (Int × Int) :=
  let R : Int := ρ
  let left : List (Int × Int) :=
    ((latticeAxis compact ρ).dropLast.dropLast).flatMap (fun a => [(-R, a), (-R + 1, a)])
  left ++ left.map turn ++ left.map (turn ∘ turn) ++ left.map (turn ∘ turn ∘ turn)

/-- all data modules in true offsets, outermost layer first -/
def dataModules (compact : Bool) (layers : Nat) : List (Int × Int) :=
  ((List.range layers).flatMap (fun i => layerModules compact (modeRing compact + 2 * (layers - i)))).map
    (fun p => (real compact p.1, real compact p.2))

/-! ### bits and words -/

def toNat (bs : List Bool) : Nat := bs.foldl (fun a b => 2 * a + b.toNat) 0

/-- the first `n` consecutive groups of `k` bits as numbers (most significant bit first) -/
def groups (k : Nat) : Nat → List Bool → List Nat
  | 0, _ => []
  | n + 1, bs => toNat (bs.take k) :: groups k n (bs.drop k)

/-- remove bit stuffing: a word whose upper `w-1` bits are all equal carries only those `w-1` bits -/
def unstuffWord (w : Nat) (x : Nat) : List Bool :=
  let bits := (List.range w).map (fun i => x.testBit (w - 1 - i))
  if x / 2 = 0 ∨ x / 2 = 2 ^ (w - 1) - 1 then bits.dropLast else bits

/-! ### the character stream -/

inductive Mode | upper | lower | mixed | punct | digit
  deriving DecidableEq, Repr

inductive Act
  | chars (b : Bytes)
  | latch (m : Mode)
  | shift (m : Mode)
  | binary
  | flg
  deriving Repr

def codeBits : Mode → Nat
  | .digit => 4
  | _ => 5

def punctChars : List Nat := "!\"#$%&'()*+,-./:;<=>?[]{}".toList.map Char.toNat

def byte (n : Nat) : UInt8 := UInt8.ofNat n

/-- the five code tables of the standard -/
def table : Mode → Nat → Act
  | .upper, v =>
    if v = 0 then .shift .punct else if v = 1 then .chars [32]
    else if v ≤ 27 then .chars [byte (65 + v - 2)]
    else if v = 28 then .latch .lower else if v = 29 then .latch .mixed
    else if v = 30 then .latch .digit else .binary
  | .lower, v =>
    if v = 0 then .shift .punct else if v = 1 then .chars [32]
    else if v ≤ 27 then .chars [byte (97 + v - 2)]
    else if v = 28 then .shift .upper else if v = 29 then .latch .mixed
    else if v = 30 then .latch .digit else .binary
  | .mixed, v =>
    if v = 0 then .shift .punct else if v = 1 then .chars [32]
    else if v ≤ 14 then .chars [byte (v - 1)]          -- ^A … ^M
    else if v ≤ 19 then .chars [byte (27 + v - 15)]    -- ESC FS GS RS US
    else if v = 20 then .chars [64] else if v = 21 then .chars [92] else if v = 22 then .chars [94]
    else if v = 23 then .chars [95] else if v = 24 then .chars [96] else if v = 25 then .chars [124]
    else if v = 26 then .chars [126] else if v = 27 then .chars [127]
    else if v = 28 then .latch .lower else if v = 29 then .latch .upper
    else if v = 30 then .latch .punct else .binary
  | .punct, v =>
    if v = 0 then .flg else if v = 1 then .chars [13] else if v = 2 then .chars [13, 10]
    else if v = 3 then .chars [46, 32] else if v = 4 then .chars [44, 32] else if v = 5 then .chars [58, 32]
    else if v ≤ 30 then .chars [byte (punctChars.getD (v - 6) 0)]
    else .latch .upper
  | .digit, v =>
    if v = 0 then .shift .punct else if v = 1 then .chars [32]
    else if v ≤ 11 then .chars [byte (48 + v - 2)]
    else if v = 12 then .chars [44] else if v = 13 then .chars [46]
    else if v = 14 then .latch .upper else .shift .upper

/-- `n` bytes from a bit list that is known to hold at least `8 n` bits -/
def takeBytes : Nat → List Bool → Bytes × List Bool
  | 0, bs => ([], bs)
  | n + 1, bs =>
    let (out, rest) := takeBytes n (bs.drop 8)
    (byte (toNat (bs.take 8)) :: out, rest)

/-- Parse the un-stuffed data bits `bs` (`len` = their number).  `mode` is the latched mode, `sh` a pending
    one-code shift.  At a code boundary a remainder of fewer than `ws` bits that are all 1 is the padding of
    the last codeword and ends the message.  Every step consumes bits, so `len + 1` fuel suffices. -/
def parse (ws : Nat) : Nat → Mode → Option Mode → Nat → List Bool → Bytes → Except String Bytes
  | 0, _, _, _, _, _ => .error "parse: out of fuel"
  | fuel + 1, mode, sh, len, bs, out =>
    if len < ws ∧ bs.all id then
      (if sh.isSome then .error "parse: shift without a character" else .ok out)
    else
      let cur := sh.getD mode
      let k := codeBits cur
      if len < k then .error "parse: trailing bits are not padding"
      else
        let v := toNat (bs.take k)
        let rest := bs.drop k
        let len := len - k
        match table cur v, sh with
        | .chars c, _ => parse ws fuel mode none len rest (out ++ c)
        | .flg, _ => .error "parse: FLG(n) not supported"
        | _, some _ => .error "parse: only a character may follow a shift"
        | .latch m, none => parse ws fuel m none len rest out
        | .shift m, none => parse ws fuel mode (some m) len rest out
        | .binary, none =>
          if len < 5 then .error "parse: truncated binary shift length"
          else
            let l5 := toNat (rest.take 5)
            let (count, hdr) :=
              if l5 ≠ 0 then (l5, 5) else (toNat ((rest.drop 5).take 11) + 31, 16)
            if len < hdr + 8 * count then .error "parse: truncated binary shift"
            else
              let (b, rest) := takeBytes count (rest.drop hdr)
              parse ws fuel mode none (len - hdr - 8 * count) rest (out ++ b)

/-! ### the decoder -/

def check (c : Bool) (msg : String) : Except String Unit := if c then .ok () else .error msg

def decode (w h : Nat) (dark : Nat → Nat → Bool) : Except String Info := do
  check (w = h) "symbol is not square"
  let candidates : List (Bool × Nat) :=
    ((List.range 4).map (fun l => (true, l + 1)) ++ (List.range 32).map (fun l => (false, l + 1))).filter
      (fun p => symbolSize p.1 p.2 = w)
  check (!candidates.isEmpty) "size is not an Aztec size"
  let c := w / 2
  let m (p : Int × Int) : Bool := dark ((c : Int) + p.1).toNat ((c : Int) + p.2).toNat
  -- compact or full-range: a full-range bullseye has a light ring 5, a compact symbol has orientation marks there
  let compact := !(ringWalk 5).all (fun p => !m p)
  let r := modeRing compact
  -- bullseye
  check ((square (r - 1)).all (fun p => m p == (cheb p % 2 == 0))) "bullseye damaged"
  -- orientation marks
  check (((ringWalk r).filter (isOrientation r)).all (fun p => m p == (orientationDark r).contains p))
    "orientation marks wrong"
  -- mode message
  let modeBits := (modeModules compact).map m
  let modeWords := groups 4 (modeBits.length / 4) modeBits
  let modeData := if compact then 2 else 4
  let f16 ← match RS.aztecField 4 with
    | some f => pure f
    | none => .error "no field"
  check (f16.valid 1 (modeWords.length - modeData) modeWords) "mode message is not a Reed-Solomon codeword"
  let v := (modeWords.take modeData).foldl (fun a x => 16 * a + x) 0
  let layers := (if compact then v / 64 else v / 2048) + 1
  let dataWords := (if compact then v % 64 else v % 2048) + 1
  check (symbolSize compact layers = w) "mode message disagrees with the symbol size"
  -- reference grid
  let hs : Int := halfSize compact layers
  if !compact then
    check ((square hs.toNat).all (fun p =>
        if p.1 % 16 == 0 then m p == (p.2 % 2 == 0)
        else if p.2 % 16 == 0 then m p == (p.1 % 2 == 0)
        else true))
      "reference grid incomplete"
  -- data
  let ws := wordSizeOf layers
  let bits := (dataModules compact layers).map m
  let pad := bits.length % ws
  check ((bits.take pad).all (fun b => !b)) "leading pad bits not zero"
  let words := groups ws (bits.length / ws) (bits.drop pad)
  check (dataWords ≤ words.length) "mode message claims more data words than the symbol holds"
  let checkWords := words.length - dataWords
  let f ← match RS.aztecField ws with
    | some f => pure f
    | none => .error "no field"
  check (f.valid 1 checkWords words) "data is not a Reed-Solomon codeword"
  let dw := words.take dataWords
  check (dw.all (fun x => x != 0 && x != 2 ^ ws - 1)) "all-zero or all-one data word"
  let stream := dw.flatMap (unstuffWord ws)
  let content ← parse ws (stream.length + 1) .upper none stream.length stream []
  pure { compact := compact, layers := layers, size := w, wordSize := ws, dataWords := dataWords,
         checkWords := checkWords, streamBits := stream.length, content := content }

end BV.Spec.Aztec
