import BV.Base
