"""Per-property configuration of bin/check.

obs        keys of the result line that form the property's observation (None = the whole line)
oracle     run the Spec oracle `oracle <ID> …` of bvspec on the implementation's results
aux        function op -> auxiliary op whose implementation result the oracle also needs (or None)
special    extra python-driven phase (histories, fresh processes, goroutines)
"""

def scale_inner(op):
    t = op.split(" ")
    if t[0] == "scale":
        return " ".join(t[4:])
    return None

HOOK_COMMITS = []

PROPS = {
    "C05": {"claim": 'Model of code128/encode.go (Lean; tables regenerated from /repo each run) tied to the code by correspondence (exhaustive for lengths 1-2 over the 132-symbol alphabet, structured random beyond) and judged by a reference decoder written from ISO/IEC 15417 in element-width form.', "obs": None, "exhaustive_note": "all strings of length 1..2 over the 132-symbol alphabet, both checksum variants"},
    "C06": {"claim": 'Model of ean/encoder.go tied by correspondence; Spec decoder from the L set (R, G and parity derived); acceptance and check digit stated for every digit string.', "obs": None, "exhaustive_note": "every (first digit, position, digit) cell for 7- and 12-digit bodies"},
    "C07": {"claim": 'Models of code39/ and code93/ tied by correspondence (exhaustive lengths 0-2 over ASCII x 4 option mixes); Spec decoders from the Code 39 generating rule and the Code 93 width table incl. check characters and full-ASCII pair resolution.', "obs": None, "exhaustive_note": "all strings of length 0..2 over ASCII 0..127 x 4 option mixes, both symbologies"},
    "C17": {"claim": 'Model of utils/galoisfield.go, gfpoly.go, reedsolomon.go tied by correspondence (all operand pairs of the small fields in quick, of every field in thorough; polynomial ops; shared-encoder request histories); judged against an independent shift-and-reduce field multiplication and evaluation-at-roots validity.', "obs": None, "exhaustive_note": "quick: all operand pairs of GF(16), GF(64), GF(256)/285, GF(256)/301 for Multiply/Divide/Invers, sampled rows of GF(1024), GF(4096); thorough: all pairs of every field; every check-symbol count 1..min(n-1,600) in ascending and descending request order on shared encoders"},
    "C18": {"claim": 'Model of utils/bitlist.go over BitVec 32 words tied by correspondence (exhaustive short scripts, long random scripts across word and growth boundaries); judged against the abstract bit-sequence semantics.', "obs": None, "exhaustive_note": "every script of <= 4 (quick) / 5 (thorough) operations over an 8-operation alphabet from 7 initial lists"},
    "C08": {"claim": "Models of codabar/ and twooffive/ tied by correspondence (exhaustive short strings); Spec decoders by run lengths from the standards' narrow/wide tables; check-digit helper against the 3-1 weighted sum.", "obs": None, "exhaustive_note": "Codabar: all strings of length <= 4 (quick) / 5 (thorough) over 20 characters + 3 noise characters; 2 of 5 and AddCheckSum: all digit strings of length <= 5 (quick) / 6 (thorough)"},
}
