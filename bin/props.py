"""Per-property configuration of bin/check.

obs        keys of the result line that form the property's observation (None = the whole line)
oracle     run the Spec oracle `oracle <ID> …` of bvspec on the implementation's results
aux        function op -> auxiliary op whose implementation result the oracle also needs (or None)
special    extra python-driven phase (histories, fresh processes, goroutines)
"""

def scale_inner(op):
    t = op.split(" ")
    if t[0] == "scale":
        return " ".join(t[4:])
    return None

PROPS = {
    "C05": {"obs": None, "exhaustive_note": "all strings of length 1..2 over the 132-symbol alphabet, both checksum variants"},
    "C06": {"obs": None, "exhaustive_note": "every (first digit, position, digit) cell for 7- and 12-digit bodies"},
    "C07": {"obs": None, "exhaustive_note": "all strings of length 0..2 over ASCII 0..127 x 4 option mixes, both symbologies"},
    "C08": {"obs": None, "exhaustive_note": "Codabar: all strings of length <= 4 (quick) / 5 (thorough) over 20 characters + 3 noise characters; 2 of 5 and AddCheckSum: all digit strings of length <= 5 (quick) / 6 (thorough)"},
}
