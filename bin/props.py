"""Per-property configuration of bin/check.

obs        keys of the result line that form the property's observation (None = the whole line)
oracle     run the Spec oracle `oracle <ID> …` of bvspec on the implementation's results
aux        function op -> auxiliary op whose implementation result the oracle also needs (or None)
special    extra python-driven phase (histories, fresh processes, goroutines)
"""

def scale_inner(op):
    t = op.split(" ")
    if t[0] == "scale":
        return " ".join(t[4:])
    return None

HOOK_COMMITS = []

def base_op(op):
    t = op.split(" ")
    while t and t[0] == "scale":
        t = t[4:]
    return " ".join(t) if " ".join(t) != op else None

def plain_op(op):
    t = op.split(" ")
    if t and t[-1].startswith("@"):
        return " ".join(t[:-1])
    return op

import os, subprocess, time

def special_c15(pid, tier, seed, st, res, chk):
    """histories: the whole mixed sequence in ONE process vs. every call alone in a FRESH process"""
    harness = os.path.join(chk.BIN, "harness")
    g = chk.run([harness, "gen", pid, tier, str(seed)])
    seq = [l for l in g.stdout.split("\n") if l]
    if tier == "quick":
        seq = seq[:400]
    t0 = time.time()
    hist = chk.pipe_lines([harness, "run"], seq, timeout=1200)          # one process, one history
    distinct = sorted(set(seq))
    from concurrent.futures import ThreadPoolExecutor
    def fresh(op):
        try:
            return chk.pipe_lines([harness, "run"], [op], timeout=300)[0]
        except subprocess.TimeoutExpired:
            return "timeout"
    with ThreadPoolExecutor(max_workers=chk.NPROC) as ex:
        fr = dict(zip(distinct, ex.map(fresh, distinct)))
    bad = 0
    for i, (op, r) in enumerate(zip(seq, hist)):
        if r != fr[op]:
            bad += 1
            if bad <= 3:
                res["oracle_fail"].append({"op": op, "impl": chk.short(r), "tag": "purity-history",
                    "reason": "result after %d earlier calls differs from the fresh-process result %s; history: %s" % (i, chk.short(fr[op], 120), " || ".join(x[:80] for x in seq[max(0, i - 5):i]))})
    res.setdefault("extra", {})["history"] = {"calls_in_one_process": len(seq), "fresh_process_calls": len(distinct),
                                               "differences": bad, "t_s": round(time.time() - t0, 1)}

def special_c16(pid, tier, seed, st, res, chk):
    """schedules: n goroutines start all ops at once as the first calls of a fresh process; results must equal the
    sequential ones, no goroutine may stay alive, the race detector must stay silent"""
    harness = os.path.join(chk.BIN, "harness")
    race = os.path.join(chk.BIN, "harness-race")
    r = chk.run(["go", "build", "-race", "-tags", "verif", "-o", race, "./cmd/harness"], cwd=os.path.join(chk.VERIF, "go"), env=chk.GOENV)
    have_race = r.returncode == 0
    ops, impl = res.get("_ops", []), res.get("_impl", [])
    expect = dict(zip(ops, impl))
    if tier == "quick":
        configs = [(2, 1, False), (8, 4, False), (64, 16, False), (16, 2, False), (8, 8, True), (32, 16, True)]
        sub = ops[:220]
    else:
        configs = [(n, p, rc) for n in (2, 3, 8, 16, 64) for p in (1, 2, 4, 16) for rc in (False, True)]
        sub = ops
    runs = []
    t0 = time.time()
    for (n, procs, use_race) in configs:
        if use_race and not have_race:
            continue
        binp = race if use_race else harness
        env = dict(os.environ, GOMAXPROCS=str(procs), GORACE="halt_on_error=1 exitcode=66")
        part = sub if not use_race else sub[: max(60, len(sub) // 3)]
        try:
            p = subprocess.run([binp, "conc", str(n)], input="\n".join(part) + "\n", stdout=subprocess.PIPE,
                               stderr=subprocess.PIPE, text=True, env=env, timeout=900)
            out = p.stdout.split("\n")
            status = ""
            if p.returncode == 66 or "DATA RACE" in p.stderr:
                status = "race"
                res["oracle_fail"].append({"op": "conc %d GOMAXPROCS=%d race-detector" % (n, procs), "impl": chk.short(p.stderr, 1500), "tag": "conc-race", "reason": "data race reported"})
            elif p.returncode != 0:
                status = "crash"
                res["oracle_fail"].append({"op": "conc %d GOMAXPROCS=%d" % (n, procs), "impl": chk.short(p.stderr, 1500), "tag": "conc-crash", "reason": "process exited with %d" % p.returncode})
            else:
                tail = [l for l in out if l.startswith("#conc")]
                lines = [l for l in out if l and not l.startswith("#conc")]
                if not tail or "deadlock" in tail[0]:
                    status = "deadlock"
                    res["oracle_fail"].append({"op": "conc %d GOMAXPROCS=%d" % (n, procs), "impl": "", "tag": "conc-deadlock", "reason": "calls did not return"})
                else:
                    leaked = int(tail[0].split("leaked=")[1].split(" ")[0])
                    diff = [(o, a) for o, a in zip(part, lines) if a != expect.get(o)]
                    status = "leaked=%d diff=%d" % (leaked, len(diff))
                    if leaked > 0:
                        res["oracle_fail"].append({"op": "conc %d GOMAXPROCS=%d" % (n, procs), "impl": tail[0], "tag": "conc-leak", "reason": "%d goroutines still alive after all calls returned" % leaked})
                    for o, a in diff[:2]:
                        res["oracle_fail"].append({"op": o, "impl": chk.short(a), "tag": "conc-result", "reason": "result under %d goroutines / GOMAXPROCS=%d differs from the sequential result" % (n, procs)})
        except subprocess.TimeoutExpired:
            status = "timeout"
            res["oracle_fail"].append({"op": "conc %d GOMAXPROCS=%d" % (n, procs), "impl": "", "tag": "conc-deadlock", "reason": "timeout"})
        runs.append({"goroutines": n, "GOMAXPROCS": procs, "race_detector": use_race, "ops": len(part), "status": status})
    res.setdefault("extra", {})["schedules"] = {"runs": runs, "race_binary": have_race, "t_s": round(time.time() - t0, 1)}

PROPS = {
    "C15": {"claim": "Purity: every encoder is modelled as a pure function; that this is faithful is carried by generated syntactic facts (no package-level variable written after init, no struct field aliasing a slice parameter, the RS cache only touched inside the locked getPolynomial) plus the theorem that Encode is independent of the cache history and that the map-order dependent searches have unique answers; the Go side is exercised with long mixed histories in one process against fresh-process runs and with post-hoc mutation of []byte arguments.",
            "obs": None, "special": special_c15, "note": "Partial by nature: a pure model cannot exhibit hidden state; the history / fresh-process comparison and the mutation check are testing of the Go functions."},
    "C16": {"modules": ["QrA"], "claim": "Concurrency: the logic that makes concurrent use safe is modelled and proved (mutex-guarded cache whose result is history-free => serialisable; producer/consumer protocols of the channel pipelines always drain), with generated facts as preconditions; schedules, the race detector and goroutine leaks are exercised by running mixed workloads from 2-64 goroutines with GOMAXPROCS 1-16 as the first calls of fresh processes.",
            "obs": None, "special": special_c16, "note": "Partial by nature: the Go scheduler and memory model are not modelled; races and leaks are searched by execution (-race), not proved absent."},
    "C09": {"claim": "Model of scaledbarcode.go (Scale, ScaleWithFill, both scalers, the wrapper's accessors) with the theorem that the result is the integer, centred enlargement or an error; tied by correspondence on exhaustive (width, height) windows of small sources of every family, chains, fills; judged pixel by pixel by the property's own formula.",
            "obs": None, "aux": scale_inner, "exhaustive_note": "every (w, h) in [1, 3*size+3]^2 for the small 1-D sources and small matrix symbols whose window fits the budget"},
    "C10": {"modules": ["QrA", "PdfA", "DmA", "C05", "C06", "C07", "C08"], "claim": "Acceptance stated per entry point as `accepted iff representable` (alphabet, length, parity, check digit, capacity from the ISO tables); models tied by correspondence on every single byte / boundary rune / boundary length / parameter sweep; no call may panic, hang or return an inconsistent pair. For Aztec and PDF417 capacity the oracle decides only one direction (content that certainly fits must be accepted).",
            "obs": ["ok", "rej"], "exhaustive_note": "every single byte value and 15 boundary runes as one-character content for every entry point; level bytes 0..255; layer requests -40..40"},
    "C11": {"claim": "Rendering contract per family: bounds, exactly the two scheme colours, scheme and model reported, pattern independent of the scheme, metadata, content rule; models tied by correspondence over schemes in Gray, Gray16, RGBA, NRGBA, CMYK, RGBA64 with equal and mixed-type colours.",
            "obs": None, "aux": plain_op},
    "C12": {"modules": ["QrA", "PdfA", "DmA"], "claim": "Declared and carried error-correction strength: QR level in the format information and ISO block structure, PDF417 level in both indicators and 2^(level+1) valid check words, DataMatrix ECC 200 counts, Aztec check bits vs. requested percentage; read back from the implementation's pixels by the reference decoders.",
            "obs": None},
    "C13": {"modules": ["QrA", "PdfA", "DmA"], "claim": "Minimality: QR version against the ISO capacity of the densest single mode, DataMatrix size against the ASCII encodation length, PDF417 padding below one row within the limits, Aztec by requesting every physically smaller symbol explicitly.",
            "obs": ["w", "h", "auto", "smaller_ok"]},
    "C14": {"modules": ["C05", "C06", "C07"], "claim": "CheckSum() against the check value decoded from the drawn symbol (EAN last digit = GS1 check, Code 128 check character, Code 39 modulo-43 value) and its invariance under 0-3 rounds of Scale.",
            "obs": ["cs"], "aux": base_op},
    "C01": {"modules": ["QrA", "QrB"], "claim": "Model of the qr package (four mode encoders incl. Atoi semantics, version search, padding, block split/interleave + RS, all eight masked renderings with the four penalty rules and the argmin, format/version information, alignment geometry in exact arithmetic) tied by correspondence on every version x level x mode capacity boundary; judged by a reference decoder written from ISO/IEC 18004 (BCH by generator polynomial, Annex E centres, function-module map, zig-zag read, ISO block table, RS validity by evaluation, segment parse, terminator and pad rules).",
            "obs": None, "exhaustive_note": "quick: capacity-1/capacity/capacity+1 for every (level, mode) of versions 1-10 and a rotating pair for 11-40; thorough: all 160 x 3 x 3 boundary cases"},
    "C02": {"modules": ["DmA", "C17"], "claim": "Model of the datamatrix package (encodation, padding, size choice, block interleave + RS, placement with both wrap rules, corner cases and panics, region merge) tied by correspondence on every size and capacity boundary; judged by a reference decoder written from ISO/IEC 16022 (attribute table, finder/clock tracks, Annex F placement pseudo-code, RS validity by evaluation, ASCII decodation with 253-state pads).",
            "obs": None, "exhaustive_note": "all 24 sizes at capacity-1/capacity/capacity+1 in several content classes"},
    "C03": {"claim": "Model of the aztec package (high-level encoder with its state search, token lists, bit stuffing, layer choice, mode message, check words over five fields, data spiral, bullseye, reference grid) tied by correspondence over all 36 shapes, all 37 layer requests, percentages and capacity boundaries; judged by a reference decoder written from ISO/IEC 24778 (bullseye/orientation, mode message RS over GF(16), reference grid, domino spiral read, RS validity by evaluation, un-stuffing, character stream incl. binary shift). The empty payload is an open known finding.",
            "obs": None, "exhaustive_note": "all 36 symbol shapes and all 37 layer requests; capacity-1/capacity/capacity+1 for every (percentage, layers) group"},
    "C04": {"modules": ["PdfA"], "claim": "Model of the pdf417 package (text/byte/numeric compaction state machines, dimensions, RS LFSR, row indicators, rendering) tied by correspondence incl. every total codeword count 3..905; judged by a reference decoder written from ISO/IEC 15438 (start/stop, cluster rule, indicators, RS validity over GF(929) by evaluation, compaction modes). The 3x929 pattern order is a frozen snapshot (DESIGN 1.1).",
            "obs": None, "exhaustive_note": "every total codeword count 3..905, i.e. all 104 reachable (rows, cols) shapes"},
    "C05": {"claim": 'Model of code128/encode.go (Lean; tables regenerated from /repo each run) tied to the code by correspondence (exhaustive for lengths 1-2 over the 132-symbol alphabet, structured random beyond) and judged by a reference decoder written from ISO/IEC 15417 in element-width form.', "obs": None, "exhaustive_note": "all strings of length 1..2 over the 132-symbol alphabet, both checksum variants"},
    "C06": {"claim": 'Model of ean/encoder.go tied by correspondence; Spec decoder from the L set (R, G and parity derived); acceptance and check digit stated for every digit string.', "obs": None, "exhaustive_note": "every (first digit, position, digit) cell for 7- and 12-digit bodies"},
    "C07": {"claim": 'Models of code39/ and code93/ tied by correspondence (exhaustive lengths 0-2 over ASCII x 4 option mixes); Spec decoders from the Code 39 generating rule and the Code 93 width table incl. check characters and full-ASCII pair resolution.', "obs": None, "exhaustive_note": "all strings of length 0..2 over ASCII 0..127 x 4 option mixes, both symbologies"},
    "C17": {"claim": 'Model of utils/galoisfield.go, gfpoly.go, reedsolomon.go tied by correspondence (all operand pairs of the small fields in quick, of every field in thorough; polynomial ops; shared-encoder request histories); judged against an independent shift-and-reduce field multiplication and evaluation-at-roots validity.', "obs": None, "exhaustive_note": "quick: all operand pairs of GF(16), GF(64), GF(256)/285, GF(256)/301 for Multiply/Divide/Invers, sampled rows of GF(1024), GF(4096); thorough: all pairs of every field; every check-symbol count 1..min(n-1,600) in ascending and descending request order on shared encoders"},
    "C18": {"claim": 'Model of utils/bitlist.go over BitVec 32 words tied by correspondence (exhaustive short scripts, long random scripts across word and growth boundaries); judged against the abstract bit-sequence semantics.', "obs": None, "exhaustive_note": "every script of <= 4 (quick) / 5 (thorough) operations over an 8-operation alphabet from 7 initial lists"},
    "C08": {"claim": "Models of codabar/ and twooffive/ tied by correspondence (exhaustive short strings); Spec decoders by run lengths from the standards' narrow/wide tables; check-digit helper against the 3-1 weighted sum.", "obs": None, "exhaustive_note": "Codabar: all strings of length <= 4 (quick) / 5 (thorough) over 20 characters + 3 noise characters; 2 of 5 and AddCheckSum: all digit strings of length <= 5 (quick) / 6 (thorough)"},
}
