"""Per-property configuration of bin/check.

obs        keys of the result line that form the property's observation (None = the whole line)
oracle     run the Spec oracle `oracle <ID> …` of bvspec on the implementation's results
aux        function op -> auxiliary op whose implementation result the oracle also needs (or None)
special    extra python-driven phase (histories, fresh processes, goroutines)
"""

def scale_inner(op):
    t = op.split(" ")
    if t[0] == "scale":
        return " ".join(t[4:])
    return None

HOOK_COMMITS = ["4cde1b723c3874958de49eb769ff5405f4418d22"]

def base_op(op):
    t = op.split(" ")
    while t and t[0] == "scale":
        t = t[4:]
    return " ".join(t) if " ".join(t) != op else None

def plain_op(op):
    t = op.split(" ")
    if t and t[-1].startswith("@"):
        return " ".join(t[:-1])
    return op

import os, subprocess, time

def special_c15(pid, tier, seed, st, res, chk):
    """histories: the whole mixed sequence in ONE process vs. every call alone in a FRESH process"""
    harness = os.path.join(chk.BIN, "harness")
    g = chk.run([harness, "gen", pid, tier, str(seed)])
    seq = [l for l in g.stdout.split("\n") if l]
    if tier == "quick":
        seq = seq[:1000]
    t0 = time.time()
    hist = chk.pipe_lines([harness, "run"], seq, timeout=1200)          # one process, one history
    distinct = sorted(set(seq))
    from concurrent.futures import ThreadPoolExecutor
    def fresh(op):
        try:
            return chk.pipe_lines([harness, "run"], [op], timeout=300)[0]
        except subprocess.TimeoutExpired:
            return "timeout"
    with ThreadPoolExecutor(max_workers=chk.NPROC) as ex:
        fr = dict(zip(distinct, ex.map(fresh, distinct)))
    bad = 0
    for i, (op, r) in enumerate(zip(seq, hist)):
        if r != fr[op]:
            bad += 1
            if bad <= 3:
                res["oracle_fail"].append({"op": op, "impl": chk.short(r), "tag": "purity-history",
                    "reason": "result after %d earlier calls differs from the fresh-process result %s; history: %s" % (i, chk.short(fr[op], 120), " || ".join(x[:80] for x in seq[max(0, i - 5):i]))})
    res.setdefault("extra", {})["history"] = {"calls_in_one_process": len(seq), "fresh_process_calls": len(distinct),
                                               "differences": bad, "t_s": round(time.time() - t0, 1)}

def special_c16(pid, tier, seed, st, res, chk):
    """schedules: n goroutines start all ops at once as the first calls of a fresh process; results must equal the
    sequential ones, no goroutine may stay alive, the race detector must stay silent"""
    harness = os.path.join(chk.BIN, "harness")
    race = os.path.join(chk.BIN, "harness-race")
    r = chk.run(["go", "build"] + chk.GOMOD + ["-race", "-tags", "verif", "-o", race, "./cmd/harness"], cwd=os.path.join(chk.VERIF, "go"), env=chk.GOENV)
    have_race = r.returncode == 0
    ops, impl = res.get("_ops", []), res.get("_impl", [])
    expect = dict(zip(ops, impl))
    if tier == "quick":
        configs = [(2, 1, False), (8, 4, False), (64, 16, False), (16, 2, False), (8, 8, True), (32, 16, True)]
        sub = ops[:220]
    else:
        configs = [(n, p, rc) for n in (2, 3, 8, 16, 64) for p in (1, 2, 4, 16) for rc in (False, True)]
        sub = ops
    runs = []
    t0 = time.time()
    for (n, procs, use_race) in configs:
        if use_race and not have_race:
            continue
        binp = race if use_race else harness
        env = dict(os.environ, GOMAXPROCS=str(procs), GORACE="halt_on_error=1 exitcode=66")
        part = sub if not use_race else sub[: max(60, len(sub) // 3)]
        try:
            p = subprocess.run([binp, "conc", str(n)], input="\n".join(part) + "\n", stdout=subprocess.PIPE,
                               stderr=subprocess.PIPE, text=True, env=env, timeout=900)
            out = p.stdout.split("\n")
            status = ""
            if p.returncode == 66 or "DATA RACE" in p.stderr:
                status = "race"
                res["oracle_fail"].append({"op": "conc %d GOMAXPROCS=%d race-detector" % (n, procs), "impl": chk.short(p.stderr, 1500), "tag": "conc-race", "reason": "data race reported"})
            elif p.returncode != 0:
                status = "crash"
                res["oracle_fail"].append({"op": "conc %d GOMAXPROCS=%d" % (n, procs), "impl": chk.short(p.stderr, 1500), "tag": "conc-crash", "reason": "process exited with %d" % p.returncode})
            else:
                tail = [l for l in out if l.startswith("#conc")]
                lines = [l for l in out if l and not l.startswith("#conc")]
                if not tail or "deadlock" in tail[0]:
                    status = "deadlock"
                    res["oracle_fail"].append({"op": "conc %d GOMAXPROCS=%d" % (n, procs), "impl": "", "tag": "conc-deadlock", "reason": "calls did not return"})
                else:
                    leaked = int(tail[0].split("leaked=")[1].split(" ")[0])
                    diff = [(o, a) for o, a in zip(part, lines) if a != expect.get(o)]
                    status = "leaked=%d diff=%d" % (leaked, len(diff))
                    if leaked > 0:
                        res["oracle_fail"].append({"op": "conc %d GOMAXPROCS=%d" % (n, procs), "impl": tail[0], "tag": "conc-leak", "reason": "%d goroutines still alive after all calls returned" % leaked})
                    for o, a in diff[:2]:
                        res["oracle_fail"].append({"op": o, "impl": chk.short(a), "tag": "conc-result", "reason": "result under %d goroutines / GOMAXPROCS=%d differs from the sequential result" % (n, procs)})
        except subprocess.TimeoutExpired:
            status = "timeout"
            res["oracle_fail"].append({"op": "conc %d GOMAXPROCS=%d" % (n, procs), "impl": "", "tag": "conc-deadlock", "reason": "timeout"})
        runs.append({"goroutines": n, "GOMAXPROCS": procs, "race_detector": use_race, "ops": len(part), "status": status})
    # cold-start bursts: many goroutines, each needing a DIFFERENT generator-polynomial degree of the shared encoders as
    # the very first library calls of a fresh process (QR versions/levels with distinct check-codeword counts, DataMatrix
    # sizes) — the window in which an unsynchronised cache extension shows; repeated over several fresh processes
    burst = []
    for i in range(8):
        for lvl in range(4):
            burst.append("qr 41 %d 3" % lvl)          # version 1: 7 / 10 / 13 / 17 check codewords
        for n in [1, 4, 7, 11]:
            burst.append("dm %s" % ("42" * n))        # sizes 10 / 12 / 14 / 16: 5 / 7 / 10 / 12 check codewords
    seq = dict(zip(burst, chk.run_impl(burst)))
    reps = 40 if tier == "quick" else 300
    bad_bursts = 0
    for rep in range(reps):
        env = dict(os.environ, GOMAXPROCS="16")
        try:
            p = subprocess.run([harness, "conc", str(len(burst))], input="\n".join(burst) + "\n", stdout=subprocess.PIPE,
                               stderr=subprocess.PIPE, text=True, env=env, timeout=300)
        except subprocess.TimeoutExpired:
            res["oracle_fail"].append({"op": "cold-start burst", "impl": "", "tag": "conc-deadlock", "reason": "timeout"})
            bad_bursts += 1
            continue
        lines = [l for l in p.stdout.split("\n") if l and not l.startswith("#conc")]
        tail = [l for l in p.stdout.split("\n") if l.startswith("#conc")]
        diff = [(o, a) for o, a in zip(burst, lines) if a != seq.get(o)]
        leaked = int(tail[0].split("leaked=")[1].split(" ")[0]) if tail and "leaked=" in tail[0] else -1
        if diff or leaked != 0 or p.returncode != 0:
            bad_bursts += 1
            if diff:
                o, a = diff[0]
                res["oracle_fail"].append({"op": o, "impl": chk.short(a), "tag": "conc-result",
                    "reason": "cold-start burst %d: result of a first call made concurrently with %d others differs from the sequential result (%d of %d calls differ)" % (rep, len(burst) - 1, len(diff), len(burst))})
            elif leaked != 0:
                res["oracle_fail"].append({"op": "cold-start burst", "impl": tail[0] if tail else "", "tag": "conc-leak", "reason": "goroutines left: %d" % leaked})
            else:
                res["oracle_fail"].append({"op": "cold-start burst", "impl": chk.short(p.stderr, 800), "tag": "conc-crash", "reason": "exit %d" % p.returncode})
            if bad_bursts >= 2:
                break
    # extension steps: the shared QR encoder's polynomial cache is first brought to exactly degree a by one call, then 8
    # goroutines at once need the next larger degree b that QR uses — under the race detector, for every consecutive
    # pair of QR check-codeword counts (seed y06: an in-place append outside the lock races only at the 16 -> 17 step)
    deg_ops = [(7, "qr %s 0 3" % ("61" * 10)), (10, "qr %s 1 3" % ("61" * 10)), (13, "qr %s 2 3" % ("61" * 10)),
               (15, "qr %s 0 3" % ("61" * 40)), (16, "qr %s 1 3" % ("61" * 20)), (17, "qr %s 3 3" % ("61" * 5)),
               (18, "qr %s 2 3" % ("61" * 28)), (20, "qr %s 0 3" % ("61" * 60)), (22, "qr %s 2 3" % ("61" * 15)),
               (24, "qr %s 1 3" % ("61" * 70)), (26, "qr %s 1 3" % ("61" * 35)), (28, "qr %s 3 3" % ("61" * 10)),
               (30, "qr %s 0 3" % ("61" * 200))]
    step_trials = 3 if tier == "quick" else 25
    step_runs = step_bad = 0
    if have_race:
        seqr = dict(zip([o for _, o in deg_ops], chk.run_impl([o for _, o in deg_ops])))
        for (a, wa), (b, ob) in zip(deg_ops, deg_ops[1:]):
            lines_in = ["warm " + wa] + [ob] * 8
            for trial in range(step_trials):
                step_runs += 1
                env = dict(os.environ, GOMAXPROCS=str([2, 4, 16][trial % 3]))
                try:
                    p = subprocess.run([race, "conc", "8"], input="\n".join(lines_in) + "\n", stdout=subprocess.PIPE,
                                       stderr=subprocess.PIPE, text=True, env=env, timeout=300)
                except subprocess.TimeoutExpired:
                    res["oracle_fail"].append({"op": "extension step %d->%d" % (a, b), "impl": "", "tag": "conc-deadlock", "reason": "timeout"})
                    step_bad += 1
                    break
                out_lines = [l for l in p.stdout.split("\n") if l and not l.startswith("#conc")]
                wrong = [l for l in out_lines[1:] if l != seqr.get(ob)]
                if "DATA RACE" in p.stderr:
                    res["oracle_fail"].append({"op": "warm " + wa + " ; 8 x " + ob, "impl": chk.short(p.stderr, 1500), "tag": "conc-race",
                                               "reason": "data race when 8 goroutines extend the generator cache from degree %d to %d" % (a, b)})
                    step_bad += 1
                    break
                if wrong or p.returncode != 0:
                    res["oracle_fail"].append({"op": "warm " + wa + " ; 8 x " + ob, "impl": chk.short(wrong[0] if wrong else p.stderr, 800), "tag": "conc-result",
                                               "reason": "extension step %d->%d: a concurrent result differs from the sequential one / the process failed" % (a, b)})
                    step_bad += 1
                    break
            if step_bad >= 2:
                break
    res.setdefault("extra", {})["schedules"] = {"runs": runs, "race_binary": have_race, "cold_start_bursts": reps,
                                               "bursts_failing": bad_bursts, "extension_step_runs": step_runs,
                                               "extension_steps_failing": step_bad, "t_s": round(time.time() - t0, 1)}

PROPS = {
    "C15": {"claim": "Purity: every encoder is modelled as a pure function; that this is faithful is carried by generated syntactic facts (no package-level variable written after init, no struct field aliasing a slice parameter, the RS cache only touched inside the locked getPolynomial) plus the theorem that Encode is independent of the cache history and that the map-order dependent searches have unique answers; the Go side is exercised with long mixed histories in one process against fresh-process runs and with post-hoc mutation of []byte arguments.",
            "obs": None, "special": special_c15, "note": "Partial by nature: a pure model cannot exhibit hidden state; the history / fresh-process comparison and the mutation check are testing of the Go functions."},
    "C16": {"modules": ["QrA"], "claim": "Concurrency: the logic that makes concurrent use safe is modelled and proved (mutex-guarded cache whose result is history-free => serialisable; producer/consumer protocols of the channel pipelines always drain), with generated facts as preconditions; schedules, the race detector and goroutine leaks are exercised by running mixed workloads from 2-64 goroutines with GOMAXPROCS 1-16 as the first calls of fresh processes.",
            "obs": None, "special": special_c16, "note": "Partial by nature: the Go scheduler and memory model are not modelled; races and leaks are searched by execution (-race), not proved absent."},
    "C09": {"modules": ["PureQr", "PureDm", "PureAztec", "PurePdf", "Pure1D"], "claim": "Model of scaledbarcode.go (Scale, ScaleWithFill, both scalers, the wrapper's accessors) with the theorem that the result is the integer, centred enlargement or an error; tied by correspondence on exhaustive (width, height) windows of small sources of every family, chains, fills; judged pixel by pixel by the property's own formula.",
            "obs": None, "aux": scale_inner, "exhaustive_note": "every (w, h) in [1, 3*size+3]^2 for the small 1-D sources and small matrix symbols whose window fits the budget"},
    "C10": {"modules": ["QrA", "PdfA", "DmA", "AztecA", "C05", "C06", "C07", "C08", "GenQr", "GenDm", "GenAztec", "GenPdf", "GenUtils", "PureQr", "PureDm", "PureAztec", "PurePdf", "Pure1D"], "claim": 'Acceptance is proved in Lean per entry point as `accepted iff representable` and `never panics` for all eleven families (C05_accepts_iff, C06_accept, C07_*_accepts, C08_*_accept, QrA.encode*_accepts_iff + encodeWithColor_no_panic, DmA.accepted_iff, PdfA.C04_encode_cases + C10_never_panics, AztecA.AztecA_explicit_iff + C10_aztec_*); termination is by construction (structural recursion or fuel proved sufficient where it matters). Tied to /repo by correspondence on every single byte / boundary rune / boundary length / parameter sweep; the oracle states representability from the standards (alphabet, length, parity, check digit, ISO capacity) and flags any panic, hang or inconsistent return. For Aztec and PDF417 capacity the oracle decides one direction only (content that certainly fits must be accepted).',
            "obs": ["ok", "rej"], "exhaustive_note": "every single byte value and 15 boundary runes as one-character content for every entry point; level bytes 0..255; layer requests -40..40"},
    "C11": {"modules": ["PureQr", "PureDm", "PureAztec", "PurePdf", "Pure1D"], "claim": "Proved in Lean for all eleven families and every constructor path (BV/Props/C11): acceptance, bounds, metadata, content, checksum and module pattern do not depend on the colour scheme; the scheme in force is the caller's (plain Encode = ColorScheme16); only the two scheme colours occur; standard sizes. Tied to /repo by correspondence over schemes in Gray, Gray16, RGBA, NRGBA, CMYK, RGBA64 incl. equal and type-mixed colours, and judged per pixel by the oracle.",
            "obs": None, "aux": plain_op},
    "C12": {"modules": ["QrA", "PdfA", "DmA", "AztecA", "GenQr", "GenDm", "GenAztec", "GenPdf", "PureQr", "PureDm", "PureAztec", "PurePdf"], "claim": "Proved in Lean: the decoded Info of the round-trip theorems carries the requested level / counts — QR: format word names the level and the blocks follow the ISO table (C01_qr, QrA); PDF417: both indicators name the level and 2^(level+1) valid check words (PdfA); DataMatrix: ECC 200 counts of the chosen size (C02, DmA.table_certificates); Aztec: check bits x 100 >= percentage x data bits (AztecA.C12_aztec). The implementation's pictures are read back by the reference decoders and compared with the request.",
            "obs": None},
    "C13": {"modules": ["QrA", "PdfA", "DmA", "AztecA", "GenQr", "GenDm", "GenAztec", "GenPdf", "PureQr", "PureDm", "PureAztec", "PurePdf"], "claim": 'Proved in Lean: QR first fit over a table proved sorted (QrA.findSmallest_minimal) and Auto = first success of numeric, alphanumeric, byte; DataMatrix first fit (DmA.size_choice); PDF417 rows = ceil, padding < columns, within 2..30 (PdfA.C13_dimensions); Aztec: every physically smaller explicit request is rejected (AztecA.C13_aztec). The oracle recomputes minimal sizes from the ISO capacity tables / by explicit smaller requests on the implementation.',
            "obs": ["w", "h", "auto", "smaller_ok"]},
    "C14": {"modules": ["C05", "C06", "C07", "GenUtils", "Pure1D"], "claim": "CheckSum() against the check value decoded from the drawn symbol (EAN last digit = GS1 check, Code 128 check character, Code 39 modulo-43 value) and its invariance under 0-3 rounds of Scale.",
            "obs": ["cs"], "aux": base_op},
    "C01": {"modules": ["QrA", "QrB", "GenQr", "PureQr"], "claim": "Proved in Lean for all inputs (theorem C01_qr): whenever the model of the qr package returns a barcode, the ISO/IEC 18004 reference decoder accepts its picture (function patterns, both format/version copies BCH-valid, every RS block valid, terminator/pads/remainder) and returns exactly the content, the requested level and the chosen version, for whichever of the eight masks is selected. The model is tied to /repo on every run: tables regenerated by the translator (block table, format/version words, character set, field), control flow by a differential correspondence check over every version x level x mode capacity boundary; the same reference decoder also judges the implementation's own pictures.",
            "obs": None, "exhaustive_note": "quick: capacity-1/capacity/capacity+1 for every (level, mode) of versions 1-10 and a rotating pair for 11-40; thorough: all 160 x 3 x 3 boundary cases"},
    "C02": {"modules": ["DmA", "C17", "GenDm", "PureDm"], "claim": 'Proved in Lean for all inputs (theorem C02_datamatrix): every content whose ASCII encodation has at most 1558 codewords is accepted (iff), placed in the smallest of the 24 sizes, and the ISO/IEC 16022 reference decoder (finder/clock tracks per region, Annex F placement, interleaved RS blocks, 253-state pads) returns the content; placement via a data-independence lemma plus 24 kernel certificates; RS from C17. Tied to /repo by regenerated size table and correspondence on every size and capacity boundary.',
            "obs": None, "exhaustive_note": "all 24 sizes at capacity-1/capacity/capacity+1 in several content classes"},
    "C03": {"modules": ["AztecA", "GenAztec", "PureAztec"], "claim": 'Proved in Lean for all inputs (theorem AztecA.C03_aztec, payloads shorter than 2^58 bytes, percentage >= 0): whatever the model of the aztec package returns, the ISO/IEC 24778 reference decoder accepts the picture (bullseye, orientation marks, RS-valid mode message agreeing with the size, complete reference grid, RS-valid data words with no all-0/all-1 word) and returns exactly the payload; explicit layer requests are honoured exactly; check bits >= requested percentage; every physically smaller explicit request is refused (C13). Built from a search invariant for the high-level encoder (any state of the list parses back), stuffing, layer choice, RS via C17, and 36 per-shape geometry certificates. Tied to /repo by regenerated tables and correspondence over all 36 shapes, 37 layer requests, percentages and capacity boundaries.',
            "obs": None, "exhaustive_note": "all 36 symbol shapes and all 37 layer requests; capacity-1/capacity/capacity+1 for every (percentage, layers) group"},
    "C04": {"modules": ["PdfA", "GenPdf", "GenUtils", "PurePdf"], "claim": 'Proved in Lean for all inputs (theorem PdfA.C04_encode_decode): whatever the model of the pdf417 package returns, the ISO/IEC 15438 reference decoder returns exactly rows, columns, level, length descriptor, padding (< one row), 2^(level+1) check words and the data; the LFSR is polynomial division over ZMod 929 (Mathlib), generator polynomials certified for the nine levels, indicators = ISO formulas, compaction round trips incl. segmentation. The 3x929 pattern order is a frozen snapshot (DESIGN 1.1). Tied to /repo by regenerated tables and correspondence incl. every total codeword count.',
            "obs": None, "exhaustive_note": "every total codeword count 3..905, i.e. all 104 reachable (rows, cols) shapes"},
    "C05": {"modules": ["Pure1D"], "claim": "Proved in Lean for all inputs (C05_symbols, C05_roundtrip, C05_accepts_iff): the code-set chooser's output is interpreted back to the content by the ISO/IEC 15417 state machine, both checksum variants decode bit-exactly, acceptance iff 1..80 runes of the alphabet. Tied to /repo by the regenerated pattern table and constants and by correspondence (exhaustive lengths 1-2 over 132 symbols, structured transitions).", "obs": None, "exhaustive_note": "all strings of length 1..2 over the 132-symbol alphabet, both checksum variants"},
    "C06": {"modules": ["GenUtils", "Pure1D"], "claim": 'Proved in Lean for all byte strings (C06_accept, C06_roundtrip, C06_guards): acceptance iff, completed number, 67/95 modules, guards, decode through L/G/R and parity, kind. Tied by regenerated table + correspondence covering every (first digit, position, digit) cell and malformed inputs.', "obs": None, "exhaustive_note": "every (first digit, position, digit) cell for 7- and 12-digit bodies"},
    "C07": {"modules": ["Pure1D"], "claim": 'Proved in Lean for all texts and the four option mixes (C07_code39_*, C07_code93_*): acceptance iff alphabet, reference decode returns the text, check characters (mod 43; C/K mod 47 with wrapping weights), full-ASCII pairs resolved. Tied by regenerated tables + correspondence (exhaustive lengths 0-2 over ASCII x 4 option mixes).', "obs": None, "exhaustive_note": "all strings of length 0..2 over ASCII 0..127 x 4 option mixes, both symbologies"},
    "C17": {"modules": ["PureUtils"], "claim": 'Proved in Lean for the six fields found at the NewGaloisField call sites (BV/Props/C17): primitivity certificates (O(n) bitmask walk with soundness proof) give the field laws, in-range table indices, distributivity and agreement with an independent shift-and-reduce multiplication; polynomial division law; Reed-Solomon output valid at the required roots, unique, and independent of the cache history. Tied to /repo by the call-site obligation and by correspondence (all operand pairs of the small fields in quick, of every field in thorough; shared-encoder request histories).', "obs": None, "exhaustive_note": "quick: all operand pairs of GF(16), GF(64), GF(256)/285, GF(256)/301 for Multiply/Divide/Invers, sampled rows of GF(1024), GF(4096); thorough: all pairs of every field; every check-symbol count 1..min(n-1,600) in ascending and descending request order on shared encoders"},
    "C18": {"modules": ["PureUtils"], "claim": 'Proved in Lean (BV/Props/C18): the BitList model (BitVec 32 words, growth) refines an append-only bit sequence over every operation history; both byte views equal the packed sequence. Tied to /repo by correspondence on exhaustive short scripts and long random scripts across word and growth boundaries.', "obs": None, "exhaustive_note": "every script of <= 4 (quick) / 5 (thorough) operations over an 8-operation alphabet from 7 initial lists"},
    "C08": {"modules": ["GenUtils", "Pure1D"], "claim": 'Proved in Lean for all inputs (C08_codabar_*, C08_tof_*, C08_addCheckSum): acceptance = the anchored pattern (the ReplaceAllString idiom proved equivalent), run-length reference decoders return the text, the check digit completes the 3-1 sum to a multiple of ten. Tied by regenerated tables + correspondence (exhaustive short strings).', "obs": None, "exhaustive_note": "Codabar: all strings of length <= 4 (quick) / 5 (thorough) over 20 characters + 3 noise characters; 2 of 5 and AddCheckSum: all digit strings of length <= 5 (quick) / 6 (thorough)"},
}
