namespace DM
structure St where
  occ : Nat      -- bitmask, bit (row*ncol+col)
  mat : Nat
  ok  : Bool
deriving Repr

@[inline] def setM (nrow ncol : Nat) (s : St) (row col : Int) (bit : Bool) : St :=
  let (row, col) := if row < 0 then (row + nrow, col + (4 - ((nrow + 4) % 8 : Nat))) else (row, col)
  let (row, col) := if col < 0 then (row + (4 - ((ncol + 4) % 8 : Nat)), col + ncol) else (row, col)
  let idx := (row * ncol + col).toNat
  if s.occ.testBit idx then { s with ok := false }
  else { occ := s.occ ||| (1 <<< idx), mat := if bit then s.mat ||| (1 <<< idx) else s.mat, ok := s.ok }

def bitOf (v : Nat) (k : Nat) : Bool := (v >>> (7 - k)) % 2 == 1

def utah (nrow ncol : Nat) (s : St) (row col : Int) (v : Nat) : St :=
  let s := setM nrow ncol s (row-2) (col-2) (bitOf v 0)
  let s := setM nrow ncol s (row-2) (col-1) (bitOf v 1)
  let s := setM nrow ncol s (row-1) (col-2) (bitOf v 2)
  let s := setM nrow ncol s (row-1) (col-1) (bitOf v 3)
  let s := setM nrow ncol s (row-1) (col) (bitOf v 4)
  let s := setM nrow ncol s (row) (col-2) (bitOf v 5)
  let s := setM nrow ncol s (row) (col-1) (bitOf v 6)
  setM nrow ncol s (row) (col) (bitOf v 7)

def corner (nrow ncol : Nat) (s : St) (ps : List (Int × Int)) (v : Nat) : St :=
  (ps.zipIdx).foldl (fun s (p, k) => setM nrow ncol s p.1 p.2 (bitOf v k)) s

def occupied (ncol : Nat) (s : St) (row col : Int) : Bool := s.occ.testBit (row * ncol + col).toNat

/-- one diagonal sweep upward; fuel-bounded -/
def up (nrow ncol : Nat) (data : Nat → Nat) : Nat → St → Nat → Int → Int → (St × Nat × Int × Int)
  | 0, s, i, r, c => (s, i, r, c)
  | f+1, s, i, r, c =>
    let (s, i) := if r < nrow ∧ c ≥ 0 ∧ !occupied ncol s r c then (utah nrow ncol s r c (data i), i+1) else (s, i)
    let r := r - 2; let c := c + 2
    if r < 0 ∨ c ≥ ncol then (s, i, r, c) else up nrow ncol data f s i r c

def down (nrow ncol : Nat) (data : Nat → Nat) : Nat → St → Nat → Int → Int → (St × Nat × Int × Int)
  | 0, s, i, r, c => (s, i, r, c)
  | f+1, s, i, r, c =>
    let (s, i) := if r ≥ 0 ∧ c < ncol ∧ !occupied ncol s r c then (utah nrow ncol s r c (data i), i+1) else (s, i)
    let r := r + 2; let c := c - 2
    if r ≥ nrow ∨ c < 0 then (s, i, r, c) else down nrow ncol data f s i r c

def outer (nrow ncol : Nat) (data : Nat → Nat) : Nat → St → Nat → Int → Int → (St × Nat)
  | 0, s, i, _, _ => ({s with ok := false}, i)
  | f+1, s, i, r, c =>
    if r < nrow ∨ c < ncol then
      let n : Int := nrow; let m : Int := ncol
      let (s, i) := if r = n ∧ c = 0 then (corner nrow ncol s [(n-1,0),(n-1,1),(n-1,2),(0,m-2),(0,m-1),(1,m-1),(2,m-1),(3,m-1)] (data i), i+1) else (s, i)
      let (s, i) := if r = n-2 ∧ c = 0 ∧ ncol % 4 ≠ 0 then (corner nrow ncol s [(n-3,0),(n-2,0),(n-1,0),(0,m-4),(0,m-3),(0,m-2),(0,m-1),(1,m-1)] (data i), i+1) else (s, i)
      let (s, i) := if r = n-2 ∧ c = 0 ∧ ncol % 8 = 4 then (corner nrow ncol s [(n-3,0),(n-2,0),(n-1,0),(0,m-2),(0,m-1),(1,m-1),(2,m-1),(3,m-1)] (data i), i+1) else (s, i)
      let (s, i) := if r = n+4 ∧ c = 2 ∧ ncol % 8 = 0 then (corner nrow ncol s [(n-1,0),(n-1,m-1),(0,m-3),(0,m-2),(0,m-1),(1,m-3),(1,m-2),(1,m-1)] (data i), i+1) else (s, i)
      let (s, i, r, c) := up nrow ncol data (nrow+ncol) s i r c
      let (s, i, r, c) := down nrow ncol data (nrow+ncol) s i (r+1) (c+3)
      outer nrow ncol data f s i (r+3) (c+1)
    else (s, i)

def place (nrow ncol : Nat) (data : Nat → Nat) : St × Nat :=
  outer nrow ncol data (nrow+ncol) ⟨0,0,true⟩ 0 4 0

/-- number of codewords consumed and whether all modules except possibly the 2x2 corner are covered -/
def check (n : Nat) : Bool :=
  let (s, i) := place n n (fun k => (k * 37 + 11) % 256)
  let full := (1 <<< (n*n)) - 1
  let cornerMask := (1 <<< (n*n-1)) ||| (1 <<< (n*n-2)) ||| (1 <<< (n*n-n-1)) ||| (1 <<< (n*n-n-2))
  s.ok && i == n*n/8 && (s.occ == full || s.occ ||| cornerMask == full)
end DM
open DM
#eval check 8
#eval check 132
theorem c8 : check 8 = true := by decide +kernel
theorem c22 : check 22 = true := by decide +kernel
theorem c132 : check 132 = true := by decide +kernel
