namespace BL

structure BitList where
  count : Nat
  data  : List (BitVec 32)

def getWordBit (w : BitVec 32) (s : Nat) : Bool := ((w.sshiftRight s) &&& 1#32) == 1#32
def setWordBit (w : BitVec 32) (s : Nat) (v : Bool) : BitVec 32 :=
  if v then w ||| (1#32 <<< s) else w &&& ~~~(1#32 <<< s)

def BitList.getBit (b : BitList) (i : Nat) : Bool := getWordBit (b.data.getD (i / 32) 0) (31 - i % 32)
def BitList.setBit (b : BitList) (i : Nat) (v : Bool) : BitList :=
  { b with data := b.data.set (i / 32) (setWordBit (b.data.getD (i / 32) 0) (31 - i % 32) v) }

theorem getWordBit_eq (w : BitVec 32) (s : Nat) (hs : s < 32) : getWordBit w s = w.getLsbD s := by
  unfold getWordBit
  have : ((w.sshiftRight s) &&& 1#32) = (BitVec.ofBool (w.getLsbD s)).setWidth 32 := by
    apply BitVec.eq_of_getLsbD_eq
    intro i hi
    simp [BitVec.getLsbD_sshiftRight]
    by_cases h0 : i = 0
    · subst h0; simp [hs]; omega
    · simp [h0]
      intro h1
      have : (1#32).getLsbD i = false := by
        simp [BitVec.getLsbD_one, h0]
      simp_all
  rw [this]
  cases w.getLsbD s <;> decide

theorem getLsbD_setWordBit (w : BitVec 32) (s k : Nat) (v : Bool) (hs : s < 32) (hk : k < 32) :
    (setWordBit w s v).getLsbD k = if k = s then v else w.getLsbD k := by
  unfold setWordBit
  by_cases hv : v <;> simp [hv, BitVec.getLsbD_shiftLeft, BitVec.getLsbD_one, hk]
  · by_cases h : k = s
    · subst h; simp
    · simp [h]; omega
  · by_cases h : k = s
    · subst h; simp
    · simp [h]; omega

end BL
