namespace Mask

/-- O(n) duplicate check with a Nat bitmask: kernel friendly -/
def nodupMask : List Nat → Nat → Bool
  | [], _ => true
  | x :: xs, seen => !seen.testBit x && nodupMask xs (seen ||| (1 <<< x))

theorem testBit_or_one_shl (seen x y : Nat) :
    (seen ||| (1 <<< x)).testBit y = (seen.testBit y || decide (x = y)) := by
  rw [Nat.testBit_or, Nat.one_shiftLeft, Nat.testBit_two_pow]

theorem nodupMask_sound : ∀ (l : List Nat) (seen : Nat), nodupMask l seen = true →
    l.Nodup ∧ ∀ x ∈ l, seen.testBit x = false
  | [], _, _ => by simp
  | x :: xs, seen, h => by
    simp only [nodupMask, Bool.and_eq_true, Bool.not_eq_true'] at h
    obtain ⟨hx, hrest⟩ := h
    obtain ⟨hnd, hseen⟩ := nodupMask_sound xs _ hrest
    refine ⟨?_, ?_⟩
    · rw [List.nodup_cons]
      refine ⟨?_, hnd⟩
      intro hmem
      have := hseen x hmem
      rw [testBit_or_one_shl] at this
      simp at this
    · intro y hy
      rcases List.mem_cons.mp hy with rfl | hy
      · exact hx
      · have := hseen y hy
        rw [testBit_or_one_shl] at this
        simp at this
        exact this.1

theorem nodup_of_check (l : List Nat) (h : nodupMask l 0 = true) : l.Nodup :=
  (nodupMask_sound l 0 h).1

-- use: 30 000 distinct positions checked by the kernel
def big : List Nat := (List.range 30000).map (fun i => (i * 7919) % 31329)
theorem big_nodup : big.Nodup := nodup_of_check _ (by decide +kernel)
#print axioms big_nodup
end Mask
