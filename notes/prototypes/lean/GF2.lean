namespace GF2
def mulx (pp n a : Nat) : Nat :=
  let x := 2 * a
  if x ≥ n then (x ^^^ pp) &&& (n - 1) else x

/-- walk k steps from x, recording seen values in a bitmask; fail on repeat / zero / out of range -/
def walk (pp n : Nat) : Nat → Nat → Nat → Option (Nat × Nat)
  | 0, x, seen => some (x, seen)
  | k+1, x, seen =>
    if x = 0 ∨ x ≥ n ∨ seen.testBit x then none
    else walk pp n k (mulx pp n x) (seen ||| (1 <<< x))

/-- primitive: n-1 distinct nonzero values then back to 1 -/
def primitive (pp n : Nat) : Bool :=
  match walk pp n (n-1) 1 0 with
  | some (x, _) => x == 1
  | none => false
end GF2
open GF2
theorem p16 : primitive 0x13 16 = true := by decide +kernel
theorem p64 : primitive 0x43 64 = true := by decide +kernel
theorem p256a : primitive 285 256 = true := by decide +kernel
theorem p256b : primitive 301 256 = true := by decide +kernel
theorem p1024 : primitive 0x409 1024 = true := by decide +kernel
theorem p4096 : primitive 0x1069 4096 = true := by decide +kernel
#print axioms p4096
