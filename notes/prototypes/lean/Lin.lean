namespace Lin

/-- multiplication by x in GF(2)[x]/(pp), n = 2^m, as in NewGaloisField -/
def mulx (pp m a : Nat) : Nat :=
  let x := 2 * a
  if x ≥ 2 ^ m then (x ^^^ pp) &&& (2 ^ m - 1) else x

theorem two_mul_ge_iff (m a : Nat) (hm : 0 < m) (ha : a < 2 ^ m) :
    2 * a ≥ 2 ^ m ↔ a.testBit (m - 1) = true := by
  obtain ⟨k, rfl⟩ : ∃ k, m = k + 1 := ⟨m - 1, by omega⟩
  simp only [Nat.add_sub_cancel]
  have h2 : 2 ^ (k + 1) = 2 * 2 ^ k := by rw [Nat.pow_succ]; omega
  constructor
  · intro h
    exact Nat.testBit_of_two_pow_le_and_two_pow_add_one_gt (by omega) ha
  · intro h
    have := Nat.ge_two_pow_of_testBit h
    omega

theorem testBit_two_mul (a i : Nat) : (2 * a).testBit i = (decide (0 < i) && a.testBit (i - 1)) := by
  have : 2 * a = a <<< 1 := by rw [Nat.shiftLeft_eq]; omega
  rw [this, Nat.testBit_shiftLeft]
  cases i <;> simp

/-- bitwise description of mulx for a < 2^m -/
theorem testBit_mulx (pp m a i : Nat) (hm : 0 < m) (ha : a < 2 ^ m) :
    (mulx pp m a).testBit i =
      (decide (i < m) && ((decide (0 < i) && a.testBit (i - 1)) ^^ (a.testBit (m - 1) && pp.testBit i))) := by
  unfold mulx
  simp only []
  by_cases h : 2 * a ≥ 2 ^ m
  · have ht := (two_mul_ge_iff m a hm ha).mp h
    rw [if_pos h, Nat.testBit_and, Nat.testBit_xor, Nat.testBit_two_pow_sub_one, ht, testBit_two_mul]
    simp [Bool.and_comm]
  · have ht : a.testBit (m - 1) = false := by
      cases hb : a.testBit (m - 1) with
      | false => rfl
      | true => exact absurd ((two_mul_ge_iff m a hm ha).mpr hb) h
    rw [if_neg h, ht, testBit_two_mul]
    have hlt : 2 * a < 2 ^ m := by omega
    by_cases him : i < m
    · simp [him]
    · have : (2 * a).testBit i = false :=
        Nat.testBit_lt_two_pow (Nat.lt_of_lt_of_le hlt (Nat.pow_le_pow_right (by omega) (by omega)))
      rw [testBit_two_mul] at this
      simp [him, this]

theorem mulx_xor (pp m a c : Nat) (hm : 0 < m) (ha : a < 2 ^ m) (hc : c < 2 ^ m) :
    mulx pp m (a ^^^ c) = mulx pp m a ^^^ mulx pp m c := by
  apply Nat.eq_of_testBit_eq
  intro i
  rw [Nat.testBit_xor, testBit_mulx pp m _ i hm (Nat.xor_lt_two_pow ha hc), testBit_mulx pp m a i hm ha,
    testBit_mulx pp m c i hm hc]
  simp only [Nat.testBit_xor]
  cases decide (i < m) <;> cases decide (0 < i) <;> cases a.testBit (i-1) <;> cases c.testBit (i-1) <;>
    cases a.testBit (m-1) <;> cases c.testBit (m-1) <;> cases pp.testBit i <;> rfl

#print axioms mulx_xor
end Lin
