import re
def bools(s): return ''.join('1' if t.strip()=='true' else '0' for t in s.split(',') if t.strip())
def expand(widths, first='1'):
    s='';b=first
    for c in widths:
        s+=b*c; b='0' if b=='1' else '1'
    return s
# ---- Code 39: generating rule
src=open('/repo/code39/encoder.go').read()
t39={}
for m in re.finditer(r"'(.)': encodeInfo\{(-?\d+), \[\]bool\{([^}]*)\}\}",src):
    t39[m.group(1)]=(int(m.group(2)),bools(m.group(3)))
print('c39 entries',len(t39))
# bars: 2-of-5 code weights 1,2,4,7,0 ; digits 1..9,0
def two_of_five(d):  # d in 0..9 -> 5 flags wide
    w=[1,2,4,7,0]
    for a in range(5):
        for b in range(a+1,5):
            v=w[a]+w[b]
            if v==11: v=0
            if v==d: return [1 if i in (a,b) else 0 for i in range(5)]
chars="1234567890ABCDEFGHIJKLMNOPQRSTUVWXYZ-. *"
# group g (0..3): wide space index: groups: 1-0 -> space 2 (index1), A-J -> space 3(index2), K-T -> space 4 (index3), U-* -> space 1 (index0)
wide_space=[1,2,3,0]
spec39={}
for i,ch in enumerate(chars):
    g=i//10; d=(i%10+1)%10
    bars=two_of_five(d)
    el=[]
    for k in range(5):
        el.append(2 if bars[k] else 1)
        if k<4: el.append(2 if wide_space[g]==k else 1)
    spec39[ch]=expand(el)
# specials: $ / + % : all bars narrow, three wide spaces
for ch,narrow_space in zip("$/+%",[3,2,1,0]):
    el=[]
    for k in range(5):
        el.append(1)
        if k<4: el.append(1 if k==narrow_space else 2)
    spec39[ch]=expand(el)
bad=[(c,spec39[c],t39[c][1]) for c in spec39 if spec39[c]!=t39[c][1]]
print('c39 pattern mismatches',bad, 'missing', set(t39)-set(spec39))
vals="0123456789ABCDEFGHIJKLMNOPQRSTUVWXYZ-. $/+%"
print('c39 value mismatches',[(c,t39[c][0]) for i,c in enumerate(vals) if t39[c][0]!=i], t39['*'][0])
# ---- Code 93
src=open('/repo/code93/encoder.go').read()
t93=re.findall(r"(?:'(.)'|(FNC\d)): encodeInfo\{(\d+), (0x[0-9A-Fa-f]+)\}",src)
print('c93 entries',len(t93))
spec93w="131112 111213 111312 111411 121113 121212 121311 111114 131211 141111 211113 211212 211311 221112 221211 231111 112113 112212 112311 122112 132111 111123 111222 111321 121122 131121 212112 212211 211122 211221 221121 222111 112122 112221 122121 123111 121131 311112 311211 321111 112131 113121 211131 121221 312111 311121 122211 111141".split()
bad=[]
for i,(c,f,v,h) in enumerate(t93):
    assert int(v)==i
    pat=format(int(h,16),'09b')
    if expand([int(x) for x in spec93w[i]])!=pat: bad.append((i,c or f,spec93w[i],pat))
print('c93 mismatches',bad)
# ---- Codabar
src=open('/repo/codabar/encoder.go').read()
tcb={m.group(1):bools(m.group(2)) for m in re.finditer(r"'(.)': \[\]bool\{([^}]*)\}",src)}
speccb={'0':'0000011','1':'0000110','2':'0001001','3':'1100000','4':'0010010','5':'1000010','6':'0100001','7':'0100100','8':'0110000','9':'1001000','-':'0001100','$':'0011000',':':'1000101','/':'1010001','.':'1010100','+':'0010101','A':'0011010','B':'0101001','C':'0001011','D':'0001110'}
bad=[(c,speccb[c],tcb[c]) for c in speccb if expand([2 if x=='1' else 1 for x in speccb[c]])!=tcb[c]]
print('codabar entries',len(tcb),'mismatches',bad)
# ---- 2 of 5
src=open('/repo/twooffive/encoder.go').read()
t25={m.group(1):bools(m.group(2)) for m in re.finditer(r"'(\d)': pattern\{([^}]*)\}",src)}
bad=[(d,t25[str(d)]) for d in range(10) if ''.join(map(str,two_of_five(d)))!=t25[str(d)]]
print('2of5 mismatches',bad)
# ---- EAN
src=open('/repo/ean/encoder.go').read()
L=['0001101','0011001','0010011','0111101','0100011','0110001','0101111','0111011','0110111','0001011']
par=['LLLLLL','LLGLGG','LLGGLG','LLGGGL','LGLLGG','LGGLLG','LGGGLL','LGLGLG','LGLGGL','LGGLGL']
ents=re.findall(r"'(\d)': encodedNumber\{\s*\[\]bool\{([^}]*)\},\s*\[\]bool\{([^}]*)\},\s*\[\]bool\{([^}]*)\},\s*\[\]bool\{([^}]*)\},",src)
bad=[]
for d,lo,le,r,cs in ents:
    d=int(d); l=L[d]; R=''.join('1' if c=='0' else '0' for c in l); G=R[::-1]
    if bools(lo)!=l or bools(r)!=R or bools(le)!=G: bad.append((d,'sets'))
    if bools(cs)!=''.join('1' if c=='G' else '0' for c in par[d]): bad.append((d,'parity',bools(cs)))
print('ean entries',len(ents),'mismatches',bad)
