import random, subprocess, sys, re
from collections import Counter
random.seed(int(sys.argv[1]) if len(sys.argv)>1 else 1)
def expand(widths, first='1'):
    s='';b=first
    for c in widths:
        s+=b*int(c); b='0' if b=='1' else '1'
    return s
W=re.search(r'W="""(.*?)"""',open('c128.py').read(),re.S).group(1).split()
P128={expand(w):i for i,w in enumerate(W)}
FNC={1:'ñ',2:'ò',3:'ó',4:'ô'}
def dec128(bits,check=True):
    assert bits.endswith(expand(W[106])); body=bits[:-13]; assert len(body)%11==0
    syms=[P128[body[i:i+11]] for i in range(0,len(body),11)]
    cs=None
    if check:
        cs=syms[-1]; syms=syms[:-1]
        assert cs==(syms[0]+sum(i*v for i,v in enumerate(syms) if i>0))%103,'check'
    st={103:'A',104:'B',105:'C'}[syms[0]]; out=''
    for v in syms[1:]:
        if st=='C':
            if v<100: out+='%02d'%v
            elif v==100: st='B'
            elif v==101: st='A'
            elif v==102: out+=FNC[1]
            else: raise AssertionError('C %d'%v)
        elif st=='A':
            if v<64: out+=chr(v+32)
            elif v<96: out+=chr(v-64)
            elif v==96: out+=FNC[3]
            elif v==97: out+=FNC[2]
            elif v==99: st='C'
            elif v==100: st='B'
            elif v==101: out+=FNC[4]
            elif v==102: out+=FNC[1]
            else: raise AssertionError('A %d'%v)
        else:
            if v<96: out+=chr(v+32)
            elif v==96: out+=FNC[3]
            elif v==97: out+=FNC[2]
            elif v==99: st='C'
            elif v==100: out+=FNC[4]
            elif v==101: st='A'
            elif v==102: out+=FNC[1]
            else: raise AssertionError('B %d'%v)
    return out,cs
# code39 from generating rule
def two_of_five(d):
    w=[1,2,4,7,0]
    for a in range(5):
        for b in range(a+1,5):
            v=w[a]+w[b]; v=0 if v==11 else v
            if v==d: return [1 if i in (a,b) else 0 for i in range(5)]
P39={}
for i,ch in enumerate("1234567890ABCDEFGHIJKLMNOPQRSTUVWXYZ-. *"):
    g=i//10; d=(i%10+1)%10; bars=two_of_five(d); el=[]
    for k in range(5):
        el.append(2 if bars[k] else 1)
        if k<4: el.append(2 if [1,2,3,0][g]==k else 1)
    P39[expand(el)]=ch
for ch,ns in zip("$/+%",[3,2,1,0]):
    el=[]
    for k in range(5):
        el.append(1)
        if k<4: el.append(1 if k==ns else 2)
    P39[expand(el)]=ch
V39="0123456789ABCDEFGHIJKLMNOPQRSTUVWXYZ-. $/+%"
def pairs(s,sh):   # resolve full ascii; sh = dict shiftchar->kind
    out='';i=0
    while i<len(s):
        c=s[i]
        if c in sh:
            assert i+1<len(s),'dangling shift'; k=sh[c]; x=s[i+1]; i+=2; o=ord(x)-65
            assert 'A'<=x<='Z'
            if k=='$': out+=chr(o+1)
            elif k=='+': out+=chr(o+97)
            elif k=='/': out+=(':' if x=='Z' else chr(o+33)); assert x=='Z' or o<15
            else:
                if o<5: out+=chr(27+o)
                elif o<10: out+=chr(59+o-5)
                elif o<15: out+=chr(91+o-10)
                elif o<20: out+=chr(123+o-15)
                elif x=='U': out+='\0'
                elif x=='V': out+='@'
                elif x=='W': out+='`'
                else: raise AssertionError('pct')
        else: out+=c; i+=1
    return out
def dec39(bits,cs,full):
    chars=[]; i=0
    while i<len(bits):
        chars.append(P39[bits[i:i+12]]); i+=12
        if i<len(bits): assert bits[i]=='0'; i+=1
    assert chars[0]=='*' and chars[-1]=='*' and '*' not in chars[1:-1]
    s=''.join(chars[1:-1])
    if cs:
        assert V39[sum(V39.index(c) for c in s[:-1])%43]==s[-1],'check39'; s=s[:-1]
    return pairs(s,{'$':'$','%':'%','/':'/','+':'+'}) if full else s
W93=re.search(r'spec93w="(.*?)"',open('oned.py').read()).group(1).split()
A93="0123456789ABCDEFGHIJKLMNOPQRSTUVWXYZ-. $/+%ñòóô*"
P93={expand(w):A93[i] for i,w in enumerate(W93)}
def dec93(bits,cs,full):
    assert bits[-1]=='1'; bits=bits[:-1]; assert len(bits)%9==0
    chars=[P93[bits[i:i+9]] for i in range(0,len(bits),9)]
    assert chars[0]=='*' and chars[-1]=='*' and '*' not in chars[1:-1]
    s=''.join(chars[1:-1])
    def chk(d,mw):
        t=0;w=1
        for c in reversed(d):
            t+=A93.index(c)*w; w=w+1 if w<mw else 1
        return A93[t%47]
    if cs:
        assert chk(s[:-1],15)==s[-1],'K'; s=s[:-1]
        assert chk(s[:-1],20)==s[-1],'C'; s=s[:-1]
    return pairs(s,{'ñ':'$','ò':'%','ó':'/','ô':'+'}) if full else s
CB={'0000011':'0','0000110':'1','0001001':'2','1100000':'3','0010010':'4','1000010':'5','0100001':'6','0100100':'7','0110000':'8','1001000':'9','0001100':'-','0011000':'$','1000101':':','1010001':'/','1010100':'.','0010101':'+','0011010':'A','0101001':'B','0001011':'C','0001110':'D'}
def runs(bits): return [(m.group()[0],len(m.group())) for m in re.finditer(r'1+|0+',bits)]
def deccb(bits):
    r=runs(bits); assert r[0][0]=='1'; out='';i=0
    while i<len(r):
        el=r[i:i+7]; assert len(el)==7 and all(l in (1,2) for _,l in el)
        out+=CB[''.join('1' if l==2 else '0' for _,l in el)]; i+=7
        if i<len(r): assert r[i]==('0',1); i+=1
    return out
def dec25(bits,inter):
    r=runs(bits)
    if inter:
        assert [l for _,l in r[:4]]==[1,1,1,1] and [l for _,l in r[-3:]]==[3,1,1]; body=r[4:-3]; assert len(body)%10==0
        out=''
        for i in range(0,len(body),10):
            g=body[i:i+10]; assert all(l in (1,3) for _,l in g)
            for part in (g[0::2],g[1::2]):
                ws=[1,2,4,7,0]; v=sum(w for w,(_,l) in zip(ws,part) if l==3); assert sum(1 for _,l in part if l==3)==2
                out+=str(0 if v==11 else v)
        return out
    else:
        assert bits.startswith('11011010') and bits.endswith('1101011'); body=bits[8:-7]
        r=runs(body); out=''
        # each digit: 5 bars (1 or 3) each followed by narrow space
        assert len(r)%10==0
        for i in range(0,len(r),10):
            g=r[i:i+10]; bars=g[0::2]; sp=g[1::2]; assert all(l==1 for _,l in sp)
            ws=[1,2,4,7,0]; v=sum(w for w,(_,l) in zip(ws,bars) if l==3); assert sum(1 for _,l in bars if l==3)==2
            out+=str(0 if v==11 else v)
        return out
L=['0001101','0011001','0010011','0111101','0100011','0110001','0101111','0111011','0110111','0001011']
par=['LLLLLL','LLGLGG','LLGGLG','LLGGGL','LGLLGG','LGGLLG','LGGGLL','LGLGLG','LGLGGL','LGGLGL']
def decean(bits):
    inv=lambda s:''.join('1' if c=='0' else '0' for c in s)
    Ld={p:str(i) for i,p in enumerate(L)}; Rd={inv(p):str(i) for i,p in enumerate(L)}; Gd={inv(p)[::-1]:str(i) for i,p in enumerate(L)}
    assert bits[:3]=='101' and bits[-3:]=='101'
    if len(bits)==67:
        assert bits[31:36]=='01010'
        return ''.join(Ld[bits[3+7*i:10+7*i]] for i in range(4))+''.join(Rd[bits[36+7*i:43+7*i]] for i in range(4))
    assert len(bits)==95 and bits[45:50]=='01010'
    left='';pp=''
    for i in range(6):
        s=bits[3+7*i:10+7*i]
        if s in Ld: left+=Ld[s]; pp+='L'
        else: left+=Gd[s]; pp+='G'
    return str(par.index(pp))+left+''.join(Rd[bits[50+7*i:57+7*i]] for i in range(6))
def gs1(body):
    t=sum(int(c)*(3 if i%2==0 else 1) for i,c in enumerate(reversed(body))); return str((10-t%10)%10)
# ---------------- generate
cases=[]
A128=[chr(i) for i in range(128)]+list(FNC.values())
def r128():
    n=random.choice([1,2,3,4,5,6,8,12,20,40,79,80])
    s=''
    while len(s)<n:
        k=random.randrange(6)
        if k==0: s+=''.join(random.choice('0123456789') for _ in range(random.choice([1,2,3,4,5,6,7])))
        elif k==1: s+=random.choice(list(FNC.values()))
        elif k==2: s+=chr(random.randrange(32))
        elif k==3: s+=chr(random.randrange(96,128))
        else: s+=chr(random.randrange(32,96))
    return s[:n]
N=int(sys.argv[2]) if len(sys.argv)>2 else 3000
for _ in range(N): s=r128(); cases.append(('c128',s.encode('utf8'),0)); cases.append(('c128n',s.encode('utf8'),0))
for _ in range(N):
    o=random.randrange(4)
    if o&2: s=''.join(chr(random.randrange(128)) for _ in range(random.randrange(12)))
    else: s=''.join(random.choice(V39) for _ in range(random.randrange(12)))
    cases.append(('c39',s.encode(),o)); 
    if not o&2 and random.random()<0.3: s+=random.choice(list(FNC.values()))
    cases.append(('c93',s.encode('utf8'),o))
for _ in range(N//3):
    s=random.choice('ABCD')+''.join(random.choice('0123456789-$:/.+') for _ in range(random.randrange(10)))+random.choice('ABCD')
    cases.append(('cb',s.encode(),0))
    d=''.join(random.choice('0123456789') for _ in range(random.randrange(1,12)))
    cases.append(('25',d.encode(),0)); cases.append(('25',(d+d).encode(),1))
    n=random.choice([7,8,12,13]); d=''.join(random.choice('0123456789') for _ in range(n))
    if n in (8,13) and random.random()<0.8: d=d[:-1]+gs1(d[:-1])
    cases.append(('ean',d.encode(),0))
inp='\n'.join('%s -%s %d'%(f,d.hex(),o) for f,d,o in cases)+'\n'
r=subprocess.run(['/tmp/scratch/p2/dumper'],input=inp,capture_output=True,text=True)
st=Counter()
for (f,d,o),line in zip(cases,r.stdout.split('\n')):
    if line.startswith('ERR'): st[f,'err']+=1; continue
    parts=line.split(); kv={p.split('=')[0]:p.split('=')[1] for p in parts if '=' in p}; bits=parts[-1]
    txt=d.decode('utf8')
    try:
        if f=='c128': res,cs=dec128(bits); ok=res==txt and int(kv['CS'])==cs
        elif f=='c128n': res,_=dec128(bits,False); ok=res==txt
        elif f=='c39':
            res=dec39(bits,o&1,o&2); ok=res==txt
            content=bytes.fromhex(kv['C']).decode(); val=sum(V39.index(c) for c in content)%43
            if int(kv['CS'])!=val: st[f,'checksum-accessor-wrong']+=1
        elif f=='c93': res=dec93(bits,o&1,o&2); ok=res==txt
        elif f=='cb': res=deccb(bits); ok=res==txt
        elif f=='25': res=dec25(bits,o); ok=res==txt
        elif f=='ean':
            res=decean(bits); full=txt if len(txt) in (8,13) else txt+gs1(txt); ok=res==full and bytes.fromhex(kv['C']).decode()==full
            if int(kv['CS'])!=int(full[-1]): st[f,'checksum-accessor-wrong',len(txt)]+=1
        if ok: st[f,'ok',o]+=1
        else:
            st[f,'MISMATCH',o]+=1
            if st[f,'MISMATCH',o]<4: print('MISMATCH',f,o,repr(txt),repr(res))
    except (AssertionError,KeyError) as e:
        st[f,'INVALID',o]+=1
        if st[f,'INVALID',o]<4: print('INVALID',f,o,repr(txt),repr(e))
for k in sorted(st,key=str): print(k,st[k])
