class GF:
    def __init__(s,pp,n):
        s.n=n; s.exp=[0]*(2*n); s.log=[0]*n
        x=1
        for i in range(n-1):
            s.exp[i]=x; s.log[x]=i
            x<<=1
            if x>=n: x=(x^pp)&(n-1) | 0
        for i in range(n-1,2*n): s.exp[i]=s.exp[i-(n-1)]
    def mul(s,a,b):
        if a==0 or b==0: return 0
        return s.exp[s.log[a]+s.log[b]]
    def pow_alpha(s,k): return s.exp[k%(s.n-1)]
    def eval(s,word,x):
        r=0
        for c in word: r=s.mul(r,x)^c
        return r
    def valid(s,word,base,k):
        return all(s.eval(word,s.pow_alpha(base+i))==0 for i in range(k))
