from gfrs import GF
exec(open('az.py').read().split("lines=open('out_aztec.txt')")[0].split("inputs=[bytes.fromhex")[0].split("exec(open('hl.py')")[0])
exec("UP"+open('az.py').read().split("\nUP",1)[1].split("lines=open('out_aztec.txt')")[0])
GFS={4:GF(0x13,16),6:GF(0x43,64),8:GF(0x12D,256),10:GF(0x409,1024),12:GF(0x1069,4096)}
def wordsize(L): return 6 if L<=2 else 8 if L<=8 else 10 if L<=22 else 12
def aztec_decode(w,h,bits):
    assert w==h; n=w; c=n//2
    M=lambda x,y: bits[y*n+x]=='1'
    cands=[]
    for compact in (True,False):
        for L in range(1,5 if compact else 33):
            size=11+4*L if compact else 15+4*L+2*((2*L+6)//15)
            if size==n: cands.append((compact,L))
    assert cands,'size'
    results=[]
    for compact,L in cands:
        try: results.append(try_decode(M,n,c,compact,L))
        except AssertionError as e: last=e
    assert results,('no candidate valid',last)
    assert len(results)==1
    return results[0]
def try_decode(M,n,c,compact,L):
    R=5 if compact else 7   # ring radius of the mode message
    # bullseye: rings at chebyshev distance d from centre dark iff d even, for d < R-? ; 
    for y in range(-(R-1),R):
        for x in range(-(R-1),R):
            d=max(abs(x),abs(y))
            assert M(c+x,c+y)==(d%2==0),('bullseye',x,y)
    # orientation marks at ring R corners
    orient={(-R,-R):1,(-R+1,-R):1,(-R,-R+1):1,(R,-R):1,(R,-R+1):1,(R-1,-R):0,(R,R-1):1,(R,R):0,(R-1,R):0,(-R,R):0,(-R+1,R):0,(-R,R-1):0}
    for (x,y),v in orient.items(): assert M(c+x,c+y)==bool(v),('orientation',x,y)
    # mode message clockwise from top-left
    side=7 if compact else 10
    def off(i): return (c-3+i) if compact else (c-5+i+i//5)
    mm=[]
    mm+=[M(off(i),c-R) for i in range(side)]
    mm+=[M(c+R,off(i)) for i in range(side)]
    mm+=[M(off(side-1-i),c+R) for i in range(side)]
    mm+=[M(c-R,off(side-1-i)) for i in range(side)]
    nib=[int(''.join('1' if b else '0' for b in mm[i:i+4]),2) for i in range(0,len(mm),4)]
    ndata=2 if compact else 4
    assert GFS[4].valid(nib,1,len(nib)-ndata),'mode message rs'
    v=0
    for x in nib[:ndata]: v=v*16+x
    if compact: layers=(v>>6)+1; words=(v&63)+1
    else: layers=(v>>11)+1; words=(v&2047)+1
    assert layers==L,('mode message layers',layers,L)
    if not compact:
        # reference grid lines every 16 from centre
        for k in range(0,n//2+1,16):
            for t in range(n):
                for (x,y) in ((c-k,t),(c+k,t),(t,c-k),(t,c+k)):
                    if max(abs(x-c),abs(y-c))<=R: continue
                    exp=((x-c)%2==0) if (y in (c-k,c+k) and False) else None
    base=(11 if compact else 14)+4*L
    amap=list(range(base))
    if not compact:
        oc=base//2
        for i in range(oc):
            no=i+i//15
            amap[oc-i-1]=c-no-1; amap[oc+i]=c+no+1
        # reference grid completeness: every line at distance multiple of 16 from centre alternates with dark at even offsets from centre
        H=n//2
        for y in range(-H,H+1):
            for x in range(-H,H+1):
                if max(abs(x),abs(y))<=R: continue
                if x%16==0 or y%16==0:
                    exp = (y%2==0) if x%16==0 else (x%2==0)
                    if x%16==0 and y%16==0: exp=True
                    assert M(c+x,c+y)==exp,('reference grid',x,y)
    raw=[]
    for i in range(L):
        rowSize=(L-i)*4+(9 if compact else 12)
        low=i*2; high=base-1-low
        seg=[None]*(rowSize*8)
        for j in range(rowSize):
            co=j*2
            for k in range(2):
                seg[co+k]=M(amap[low+k],amap[low+j])
                seg[2*rowSize+co+k]=M(amap[low+j],amap[high-k])
                seg[4*rowSize+co+k]=M(amap[high-k],amap[high-j])
                seg[6*rowSize+co+k]=M(amap[high-j],amap[low+k])
        raw+=seg
    ws=wordsize(L)
    total=len(raw)
    assert total==((88 if compact else 112)+16*L)*L
    nw=total//ws; pad=total%ws
    assert not any(raw[:pad]),'start pad'
    cw=[int(''.join('1' if b else '0' for b in raw[pad+i*ws:pad+(i+1)*ws]),2) for i in range(nw)]
    assert words<=nw,('data words > total',words,nw)
    assert GFS[ws].valid(cw,1,nw-words),'data rs'
    s=''
    for x in cw[:words]:
        assert x!=0 and x!=(1<<ws)-1,'all-0/all-1 word'
        if x==1: s+='0'*(ws-1)
        elif x==(1<<ws)-2: s+='1'*(ws-1)
        else: s+=format(x,'0%db'%ws)
    data,rest=az_decode(s,ws)
    assert set(rest)<={'1'} and len(rest)<ws+5,('trailing',rest)
    return dict(compact=compact,layers=L,words=words,nw=nw,ws=ws,data=data,databits=len(s))
