import random, subprocess, os, sys
random.seed(int(sys.argv[1]) if len(sys.argv)>1 else 1)
# ---------- generators
def gen():
    n=random.choice([0,1,2,3,5,8,13,20,40,70])
    classes=[b'ABCDEFGHIJKLMNOPQRSTUVWXYZ ', b'abcdefghijklmnopqrstuvwxyz ', b'0123456789', b'0123456789&\r\t,:#-.$/+%*=^', b';<>@[\\]_`~!\r\t,:\n-.$/"|*()?{}\'', bytes(range(128,256)), bytes(range(0,32)), b'., :\r\n', bytes(range(256))]
    out=bytearray()
    while len(out)<n:
        c=random.choice(classes); k=random.choice([1,1,2,3,5,6,7,12,13,14,31,32,44,45])
        for _ in range(k): out.append(random.choice(c))
    return bytes(out[:max(n,0)] if random.random()<0.5 else out)
inputs=[gen() for _ in range(20000)]
inputs+= [b'0;;;;\x80;;;;;;', b'', b'A', b'\x80', b'1234567890123', b'123456789012']
open('in.txt','w').write('\n'.join(i.hex() for i in inputs)+'\n')
env=dict(os.environ, DUMP_IN=os.path.abspath('in.txt'), GOFLAGS='-mod=mod', GOPROXY='off', GOSUMDB='off', GOTOOLCHAIN='local')
for pkg in ['pdf417','aztec']:
    env['DUMP_OUT']=os.path.abspath(f'out_{pkg}.txt')
    r=subprocess.run(['go','test','-count=1','-run','TestDump','./'+pkg],cwd='/tmp/scratch/repocopy',env=env,capture_output=True,text=True)
    print(pkg,r.stdout.strip()[-200:],r.stderr.strip()[-300:])

# ---------- PDF417 reference decoder (codeword level), after ISO 15438 / zxing semantics
MIXED="0123456789&\r\t,:#-.$/+%*=^"
PUNCT=";<>@[\\]_`~!\r\t,:\n-.$/\"|*()?{}'"
def pdf_decode(cws):
    out=bytearray(); i=0; n=len(cws)
    def text(i):
        # collect values until a mode latch (>=900, except 913 handled inline)
        vals=[]  # entries: int 0..29 or ('B',byte)
        while i<n:
            c=cws[i]
            if c<900:
                vals.append(c//30); vals.append(c%30); i+=1
            elif c==913:
                vals.append(('B',cws[i+1])); i+=2
            elif c==900:
                vals.append(('R',)); i+=1   # latch to text again: reset to alpha
            else: break
        sub='A'; shift=None
        for v in vals:
            if isinstance(v,tuple):
                if v[0]=='B': out.append(v[1]); shift=None   # ps before 913 ignored
                else: sub='A'; shift=None
                continue
            cur=shift or sub; shift=None
            if cur=='A':
                if v<26: out.append(65+v)
                elif v==26: out.append(32)
                elif v==27: sub='L'
                elif v==28: sub='M'
                else: shift='P'
            elif cur=='L':
                if v<26: out.append(97+v)
                elif v==26: out.append(32)
                elif v==27: shift='A'
                elif v==28: sub='M'
                else: shift='P'
            elif cur=='M':
                if v<25: out.append(ord(MIXED[v]))
                elif v==25: sub='P'
                elif v==26: out.append(32)
                elif v==27: sub='L'
                elif v==28: sub='A'
                else: shift='P'
            else:
                if v<29: out.append(ord(PUNCT[v]))
                else: sub='A'
        return i
    def byte(i,mode):
        j=i
        while j<n and cws[j]<900: j+=1
        seg=cws[i:j]
        if mode==924:
            assert len(seg)%5==0
            for k in range(0,len(seg),5):
                t=0
                for c in seg[k:k+5]: t=t*900+c
                out.extend(t.to_bytes(6,'big'))
        else:
            k=0
            # 901: groups of 5 -> 6 bytes while at least 6 cw remain?? ISO: if count is multiple of 6 use 924; with 901 the last group (<6 bytes) is direct
            while len(seg)-k>=6 or (len(seg)-k==5 and False):
                t=0
                for c in seg[k:k+5]: t=t*900+c
                out.extend(t.to_bytes(6,'big')); k+=5
            # zxing: 901 decodes 5-cw groups while more codewords follow; the trailing <=5 codewords are bytes... ambiguity when exactly 5 remain
            for c in seg[k:]: out.append(c)
        return j
    def numeric(i):
        j=i
        while j<n and cws[j]<900: j+=1
        seg=cws[i:j]
        for k in range(0,len(seg),15):
            t=0
            for c in seg[k:k+15]: t=t*900+c
            s=str(t); assert s[0]=='1'; out.extend(s[1:].encode())
        return j
    i=text(0)
    while i<n:
        c=cws[i]
        if c==901 or c==924: i=byte(i+1,c)
        elif c==902: i=numeric(i+1)
        elif c==900: i=text(i)
        else: raise Exception('bad cw %d'%c)
        if i<n and cws[i]<900: i=text(i)
    return bytes(out)
lines=open('out_pdf417.txt').read().split('\n')
bad=0
for inp,l in zip(inputs,lines):
    if l=='ERR': print('ERR',inp); continue
    cws=[int(x) for x in l.strip('[]').split()]
    try: d=pdf_decode(cws)
    except Exception as e: d=('EXC',e)
    if d!=inp:
        bad+=1
        if bad<=12: print('PDF MISMATCH',inp,cws,d)
print('pdf mismatches',bad,'of',len(inputs))
