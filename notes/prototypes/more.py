import re, math
# QR alignment via Go algorithm re-implemented exactly vs recalled Annex E
annex={2:[6,18],3:[6,22],4:[6,26],5:[6,30],6:[6,34],7:[6,22,38],8:[6,24,42],9:[6,26,46],10:[6,28,50],11:[6,30,54],12:[6,32,58],13:[6,34,62],14:[6,26,46,66],15:[6,26,48,70],16:[6,26,50,74],17:[6,30,54,78],18:[6,30,56,82],19:[6,30,58,86],20:[6,34,62,90],21:[6,28,50,72,94],22:[6,26,50,74,98],23:[6,30,54,78,102],24:[6,28,54,80,106],25:[6,32,58,84,110],26:[6,30,58,86,114],27:[6,34,62,90,118],28:[6,26,50,74,98,122],29:[6,30,54,78,102,126],30:[6,26,52,78,104,130],31:[6,30,56,82,108,134],32:[6,34,60,86,112,138],33:[6,30,58,86,114,142],34:[6,34,62,90,118,146],35:[6,30,54,78,102,126,150],36:[6,24,50,76,102,128,154],37:[6,28,54,80,106,132,158],38:[6,32,58,84,110,136,162],39:[6,26,54,82,110,138,166],40:[6,30,58,86,114,142,170]}
def goalign(v):
    if v==1: return []
    first=6; last=(v-1)*4+21-7
    space=float(last-first); count=int(math.ceil(space/28))+1
    res=[0]*count; res[0]=first; res[-1]=last
    if count>2:
        step=int(math.ceil(float(last-first)/float(count-1)))
        if step%2==1:
            frac=float(last-first)/float(count-1)
            x=math.modf(frac)[0]
            frac=math.ceil(frac) if x>=0.5 else math.floor(frac)
            if int(frac)%2==0: step-=1
            else: step+=1
        for i in range(1,count-1): res[i]=last-step*(count-1-i)
    return res
print('align mismatches',[(v,goalign(v),annex[v]) for v in range(2,41) if goalign(v)!=annex[v]])
# repo test table
t=open('/repo/qr/versioninfo_test.go').read()
print('Test has alignment cases:', len(re.findall(r'\{\d+, \[\]int\{',t)), t.count('[]int{'))
# DM sizes
src=open('/repo/datamatrix/codesize.go').read()
rows=[tuple(map(int,r)) for r in re.findall(r'&dmCodeSize\{(\d+), (\d+), (\d+), (\d+), (\d+), (\d+)\}',src)]
spec=[(10,1,3,5,1),(12,1,5,7,1),(14,1,8,10,1),(16,1,12,12,1),(18,1,18,14,1),(20,1,22,18,1),(22,1,30,20,1),(24,1,36,24,1),(26,1,44,28,1),(32,2,62,36,1),(36,2,86,42,1),(40,2,114,48,1),(44,2,144,56,1),(48,2,174,68,1),(52,2,204,84,2),(64,4,280,112,2),(72,4,368,144,4),(80,4,456,192,4),(88,4,576,224,4),(96,4,696,272,4),(104,4,816,336,6),(120,6,1050,408,6),(132,6,1304,496,8),(144,6,1558,620,10)]
bad=[]
for (R,C,rh,rv,ecc,blk),(n,reg,data,e,b) in zip(rows,spec):
    rr=(R-rv*2)//rv; rc=(C-rh*2)//rh
    dc=(rr*rv*rc*rh)//8-ecc
    if (R,C,rh,rv,ecc,blk,dc)!=(n,n,reg,reg,e,b,data): bad.append((R,C,rh,rv,ecc,blk,dc,(n,reg,data,e,b)))
print('dm rows',len(rows),'mismatches',bad)
# PDF417 RS coefficient tables
src=open('/repo/pdf417/errorcorrection.go').read()
body=src[src.index('var correctionFactors'):src.index('func (level securitylevel) Compute')]
levels=[[int(x) for x in re.findall(r'\d+',re.sub(r'//.*','',t))] for t in re.findall(r'\[\]int\{([^}]*)\}',body)][0:]
levels=[l for l in levels if l]
print('pdf levels',[len(l) for l in levels])
def gen(k):
    g=[1]  # low->high coefficients
    a=1
    for i in range(1,k+1):
        a=a*3%929
        # multiply by (x - a)
        ng=[0]*(len(g)+1)
        for j,c in enumerate(g):
            ng[j+1]=(ng[j+1]+c)%929
            ng[j]=(ng[j]-c*a)%929
        g=ng
    return g
for lv,l in enumerate(levels):
    g=gen(2**(lv+1))
    ok = g[:-1]==l
    print(lv,len(l),'low->high without leading 1 matches' , ok)
print(format(0x1fea8,'017b'),format(0x3fa29,'018b'))
