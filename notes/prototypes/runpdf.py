import random, subprocess, sys, re
exec(open('hl.py').read().split('# ---------- generators')[1].split('inputs=[gen()')[0])
exec("MIXED"+open('hl.py').read().split("\nMIXED",1)[1].split("lines=open('out_pdf417.txt')")[0])
src=open('/repo/pdf417/codewords.go').read()
body=src[src.index('var codewords'):]
TABS=[{int(x,16):i for i,x in enumerate(re.findall(r'0x[0-9a-fA-F]+',t))} for t in re.findall(r'\[\]int\{([^}]*)\}', body)]
random.seed(int(sys.argv[1]) if len(sys.argv)>1 else 1)
cases=[]
for _ in range(int(sys.argv[2]) if len(sys.argv)>2 else 1500):
    d=gen()
    if random.random()<0.2: d=d*random.choice([3,10,25])
    cases.append((d,random.randrange(9)))
inp='\n'.join('pdf -%s %d'%(d.hex(),l) for d,l in cases)+'\n'
r=subprocess.run(['/tmp/scratch/p2/dumper'],input=inp,capture_output=True,text=True)
from collections import Counter
st=Counter(); shapes=set()
for (d,lvl),line in zip(cases,r.stdout.split('\n')):
    if line.startswith('ERR'): st['err']+=1; continue
    if not line.startswith('OK'): print('??',line[:100]); continue
    _,w,h,bits=line.split(); w=int(w); h=int(h)
    try:
        assert (w-1)%17==0 and h%2==0
        cols=(w-1)//17-4; rows=h//2
        assert 1<=cols<=30 and 2<=rows<=30,('dims',cols,rows)
        cws=[]
        problems=[]
        for r_ in range(rows):
            row=bits[(2*r_)*w:(2*r_+1)*w]; assert row==bits[(2*r_+1)*w:(2*r_+2)*w],'row height'
            assert row[:17]=='11111111010101000' and row[-18:]=='111111101000101001','start/stop'
            T=TABS[r_%3]
            vals=[T[int(row[17*(k+1):17*(k+2)],2)] for k in range(cols+2)]
            L,R=vals[0],vals[-1]; base=30*(r_//3)
            a=(rows-1)//3; b=3*lvl+(rows-1)%3; c=cols-1
            expL,expR=[(a,c),(b,a),(c,b)][r_%3]
            if L!=base+expL: problems.append(('left',r_,L,base+expL))
            if R!=base+expR: problems.append(('right',r_,R,base+expR))
            cws+=vals[1:-1]
        k=2<<lvl
        n=cws[0]; assert n==len(cws)-k,('length descriptor',n,len(cws),k)
        # RS: codeword polynomial evaluates to 0 at 3^1..3^k
        for i in range(1,k+1):
            x=pow(3,i,929); acc=0
            for cw in cws: acc=(acc*x+cw)%929
            assert acc==0,('rs',i)
        data=cws[1:n]
        npad=0
        while data and data[-1]==900: data.pop(); npad+=1
        assert npad<cols,('padding',npad,cols)
        dec=pdf_decode(data)
        shapes.add((rows,cols))
        if problems: st['indicator']+=1; st[('ind',problems[0][0],rows%3)]+=1
        if dec!=d:
            st['mismatch']+=1
            if st['mismatch']<6: print('MISMATCH',d[:40],dec[:40])
        if not problems and dec==d: st['ok']+=1
    except (AssertionError,KeyError,Exception) as e:
        st['invalid']+=1
        if st['invalid']<8: print('INVALID',d[:30],lvl,w,h,repr(e)[:100])
print(dict(st),'shapes',len(shapes))
