import re
from gfrs import GF
exec(open('qrtab.py').read().split("src=open('/repo/qr/versioninfo.go')")[0])   # defines `mine` ISO table, T
exec("annex="+re.search(r'annex=(\{.*?\}\n)',open('more.py').read(),re.S).group(1))
GF256=GF(0x11D,256)
def bch(data,nbits,gen,glen):
    v=data<<(glen-1)
    for i in range(nbits-1,-1,-1):
        if v>>(i+glen-1)&1: v^=gen<<i
    return (data<<(glen-1))|v
MASKS=[lambda i,j:(i+j)%2==0, lambda i,j:i%2==0, lambda i,j:j%3==0, lambda i,j:(i+j)%3==0,
       lambda i,j:(i//2+j//3)%2==0, lambda i,j:(i*j)%2+(i*j)%3==0, lambda i,j:((i*j)%2+(i*j)%3)%2==0, lambda i,j:((i+j)%2+(i*j)%3)%2==0]
ALNUM="0123456789ABCDEFGHIJKLMNOPQRSTUVWXYZ $%*+-./:"
def qr_decode(w,h,bits):
    assert w==h; dim=w; v=(dim-17)//4; assert dim==17+4*v and 1<=v<=40
    M=lambda x,y: bits[y*w+x]=='1'
    func=[[False]*dim for _ in range(dim)]   # func[y][x]
    def mark(x0,y0,x1,y1):
        for y in range(y0,y1+1):
            for x in range(x0,x1+1): func[y][x]=True
    mark(0,0,8,8); mark(dim-8,0,dim-1,8); mark(0,dim-8,8,dim-1)
    for k in range(dim): func[6][k]=True; func[k][6]=True
    # finder check
    def finder(ox,oy):
        for y in range(-1,8):
            for x in range(-1,8):
                X,Y=ox+x,oy+y
                if 0<=X<dim and 0<=Y<dim:
                    exp=(0<=x<=6 and 0<=y<=6) and (x in (0,6) or y in (0,6) or (2<=x<=4 and 2<=y<=4))
                    assert M(X,Y)==exp,('finder',X,Y)
    finder(0,0); finder(dim-7,0); finder(0,dim-7)
    cs=annex.get(v,[])
    for cx in cs:
        for cy in cs:
            if (cx,cy) in ((6,6),(6,cs[-1]),(cs[-1],6)): continue
            mark(cx-2,cy-2,cx+2,cy+2)
            for dy in range(-2,3):
                for dx in range(-2,3):
                    exp=max(abs(dx),abs(dy))!=1
                    assert M(cx+dx,cy+dy)==exp,('align',cx,cy)
    for k in range(8,dim-8):
        if not any(abs(k-c)<=2 for c in cs if c not in ()) or True:
            pass
    # timing
    for k in range(8,dim-8):
        # skip alignment overlapped cells (they agree anyway)
        assert M(k,6)==(k%2==0) and M(6,k)==(k%2==0),('timing',k)
    assert M(8,dim-8),'dark'
    if v>=7:
        mark(dim-11,0,dim-9,5); mark(0,dim-11,5,dim-9)
        exp=format(bch(v,6,0x1F25,13),'018b')
        a=''.join('1' if M(dim-11+i%3,i//3) else '0' for i in range(17,-1,-1))   # bit 17 (MSB) at i=17 ... LSB at i=0
        b=''.join('1' if M(i//3,dim-11+i%3) else '0' for i in range(17,-1,-1))
        assert a==exp and b==exp,('version',a,b,exp)
    c1=[(0,8),(1,8),(2,8),(3,8),(4,8),(5,8),(7,8),(8,8),(8,7),(8,5),(8,4),(8,3),(8,2),(8,1),(8,0)]
    c2=[(8,dim-1-k) for k in range(7)]+[(dim-8+k,8) for k in range(8)]
    f1=''.join('1' if M(x,y) else '0' for x,y in c1); f2=''.join('1' if M(x,y) else '0' for x,y in c2)
    assert f1==f2,('format copies',f1,f2)
    fv=int(f1,2)^0x5412
    assert bch(fv>>10,5,0x537,11)==fv,'format bch'
    lvl={1:'L',0:'M',3:'Q',2:'H'}[fv>>13]; mask=(fv>>10)&7
    # zigzag
    out=[]
    x=dim-1; up=True
    while x>0:
        if x==6: x-=1
        ys=range(dim-1,-1,-1) if up else range(dim)
        for y in ys:
            for xx in (x,x-1):
                if not func[y][xx]:
                    out.append(M(xx,y)!=MASKS[mask](y,xx))
        x-=2; up=not up
    ec,b1,d1,b2,d2=mine[(v,lvl)]
    total=(d1+ec)*b1+(d2+ec)*b2
    assert len(out)>=total*8 and len(out)-total*8<8,('modules',len(out),total)
    assert not any(out[total*8:]),'remainder bits'
    cw=[int(''.join('1' if b else '0' for b in out[i*8:i*8+8]),2) for i in range(total)]
    nb=b1+b2
    blocks=[[] for _ in range(nb)]
    lens=[d1]*b1+[d2]*b2
    k=0
    for i in range(max(d1,d2)):
        for b in range(nb):
            if i<lens[b]: blocks[b].append(cw[k]); k+=1
    eccs=[[] for _ in range(nb)]
    for i in range(ec):
        for b in range(nb): eccs[b].append(cw[k]); k+=1
    assert k==total
    for b in range(nb):
        assert GF256.valid(blocks[b]+eccs[b],0,ec),('rs block',b)
    data=[c for b in blocks for c in b]
    s=''.join(format(c,'08b') for c in data)
    cls=0 if v<10 else (1 if v<27 else 2)
    p=0; res=bytearray(); modes=[]
    while True:
        if len(s)-p<4:
            assert set(s[p:])<={'0'}; break
        m=int(s[p:p+4],2); p+=4
        if m==0: break
        modes.append(m)
        if m==1:
            n=int(s[p:p+[10,12,14][cls]],2); p+=[10,12,14][cls]
            while n>=3: res+=b'%03d'%int(s[p:p+10],2); assert int(s[p:p+10],2)<1000; p+=10; n-=3
            if n==2: res+=b'%02d'%int(s[p:p+7],2); assert int(s[p:p+7],2)<100; p+=7
            if n==1: res+=b'%d'%int(s[p:p+4],2); assert int(s[p:p+4],2)<10; p+=4
        elif m==2:
            n=int(s[p:p+[9,11,13][cls]],2); p+=[9,11,13][cls]
            while n>=2:
                t=int(s[p:p+11],2); p+=11; assert t<2025; res+=(ALNUM[t//45]+ALNUM[t%45]).encode(); n-=2
            if n==1: t=int(s[p:p+6],2); p+=6; assert t<45; res+=ALNUM[t].encode()
        elif m==4:
            n=int(s[p:p+[8,16,16][cls]],2); p+=[8,16,16][cls]
            for _ in range(n): res.append(int(s[p:p+8],2)); p+=8
        else: raise Exception('mode %d'%m)
    # padding check: rest of this byte zero, then EC 11 alternating
    q=(p+7)//8*8
    assert set(s[p:q])<={'0'},'pad bits'
    padbytes=[int(s[i:i+8],2) for i in range(q,len(s),8)]
    assert all(b==(0xEC if i%2==0 else 0x11) for i,b in enumerate(padbytes)),('pad bytes',padbytes[:4])
    return dict(v=v,level=lvl,mask=mask,modes=modes,data=bytes(res))
