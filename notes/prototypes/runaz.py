import random, subprocess, sys
from azdec import *
exec(open('hl.py').read().split('# ---------- generators')[1].split('inputs=[gen()')[0])
random.seed(int(sys.argv[1]) if len(sys.argv)>1 else 1)
cases=[]
for _ in range(int(sys.argv[2]) if len(sys.argv)>2 else 600):
    d=gen()
    if random.random()<0.15: d=d*random.choice([5,20,60])
    pct=random.choice([0,5,23,33,33,33,50,100,200])
    lay=random.choice([0,0,0,0]+list(range(-4,33)))
    cases.append((d,pct,lay))
cases+=[(b'',33,0),(b'',0,0),(b'',33,-1),(b'A',33,0),(bytes([128])*70,33,0),(bytes([128])*2100,10,0)]
inp='\n'.join('az -%s %d %d'%(d.hex(),p,l) for d,p,l in cases)+'\n'
r=subprocess.run(['/tmp/scratch/p2/dumper'],input=inp,capture_output=True,text=True)
st=dict(ok=0,err=0,bad=0); shapes=set()
for (d,p,l),line in zip(cases,r.stdout.split('\n')):
    if line.startswith('ERR'): st['err']+=1; continue
    if not line.startswith('OK'): print('??',line[:100],d[:20],p,l); continue
    _,w,h,bits=line.split()
    try:
        res=aztec_decode(int(w),int(h),bits); shapes.add((res['compact'],res['layers']))
        okreq = l==0 or (res['compact'],res['layers'])==(l<0,abs(l))
        eccbits=(res['nw']-res['words'])*res['ws']
        okecc = eccbits*100 >= p*res['databits'] - 0  # approx: data bits after unstuff incl pad
        if res['data']!=d or not okreq:
            st['bad']+=1; print('MISMATCH',d[:30],p,l,res['compact'],res['layers'],res['data'][:30])
        else: st['ok']+=1
    except AssertionError as e:
        st['bad']+=1; print('INVALID',d[:30],len(d),p,l,w,e)
print(st,'shapes',len(shapes))
