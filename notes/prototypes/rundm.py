import random, subprocess, sys
from dmdec import *
random.seed(int(sys.argv[1]) if len(sys.argv)>1 else 1)
cases=[]
def rnd(alpha,n): return bytes(random.choice(alpha) for _ in range(n))
for _ in range(int(sys.argv[2]) if len(sys.argv)>2 else 800):
    n=random.choice([0,1,2,3,5,8,12,18,22,30,36,44,62,86,114,144,174,204,280,368,456,576,696,816,1050,1304,1558,1559,1600,3116,3117])+random.choice([-1,0,0,1])
    kind=random.randrange(4)
    cases.append(rnd([b'0123456789',bytes(range(128)),bytes(range(256)),b'0123456789ab\xff'][kind],max(n,0)))
inp='\n'.join('dm -%s'%d.hex() for d in cases)+'\n'
r=subprocess.run(['/tmp/scratch/p2/dumper'],input=inp,capture_output=True,text=True)
st=dict(ok=0,err=0,bad=0); sizes=set()
for d,line in zip(cases,r.stdout.split('\n')):
    if line.startswith('ERR'): st['err']+=1; continue
    if not line.startswith('OK'): print('??',line[:100]); continue
    _,w,h,bits=line.split()
    try:
        res,n=dm_decode(int(w),int(h),bits); sizes.add(n)
        if res!=d: st['bad']+=1; print('MISMATCH',d[:30],res[:30])
        else: st['ok']+=1
    except AssertionError as e:
        st['bad']+=1; print('INVALID',len(d),w,e)
print(st,'sizes',len(sizes))
