import re
from gfrs import GF
exec("SIZES="+re.search(r'spec=(\[\(10.*?\)\])',open('more.py').read()).group(1))
GF301=GF(0x12D,256)
def placement(nrow,ncol):
    arr=[[None]*ncol for _ in range(nrow)]
    def module(row,col,ch,bit):
        if row<0: row+=nrow; col+=4-((nrow+4)%8)
        if col<0: col+=ncol; row+=4-((ncol+4)%8)
        assert arr[row][col] is None
        arr[row][col]=(ch,bit)
    def utah(row,col,ch):
        module(row-2,col-2,ch,0);module(row-2,col-1,ch,1);module(row-1,col-2,ch,2);module(row-1,col-1,ch,3)
        module(row-1,col,ch,4);module(row,col-2,ch,5);module(row,col-1,ch,6);module(row,col,ch,7)
    def c1(ch):
        for b,(r,c) in enumerate([(nrow-1,0),(nrow-1,1),(nrow-1,2),(0,ncol-2),(0,ncol-1),(1,ncol-1),(2,ncol-1),(3,ncol-1)]): module(r,c,ch,b)
    def c2(ch):
        for b,(r,c) in enumerate([(nrow-3,0),(nrow-2,0),(nrow-1,0),(0,ncol-4),(0,ncol-3),(0,ncol-2),(0,ncol-1),(1,ncol-1)]): module(r,c,ch,b)
    def c3(ch):
        for b,(r,c) in enumerate([(nrow-3,0),(nrow-2,0),(nrow-1,0),(0,ncol-2),(0,ncol-1),(1,ncol-1),(2,ncol-1),(3,ncol-1)]): module(r,c,ch,b)
    def c4(ch):
        for b,(r,c) in enumerate([(nrow-1,0),(nrow-1,ncol-1),(0,ncol-3),(0,ncol-2),(0,ncol-1),(1,ncol-3),(1,ncol-2),(1,ncol-1)]): module(r,c,ch,b)
    ch=0; row=4; col=0
    while True:
        if row==nrow and col==0: c1(ch); ch+=1
        if row==nrow-2 and col==0 and ncol%4: c2(ch); ch+=1
        if row==nrow-2 and col==0 and ncol%8==4: c3(ch); ch+=1
        if row==nrow+4 and col==2 and not ncol%8: c4(ch); ch+=1
        while True:
            if row<nrow and col>=0 and arr[row][col] is None: utah(row,col,ch); ch+=1
            row-=2; col+=2
            if not(row>=0 and col<ncol): break
        row+=1; col+=3
        while True:
            if row>=0 and col<ncol and arr[row][col] is None: utah(row,col,ch); ch+=1
            row+=2; col-=2
            if not(row<nrow and col>=0): break
        row+=3; col+=1
        if not(row<nrow or col<ncol): break
    fixed=False
    if arr[nrow-1][ncol-1] is None:
        fixed=True
        arr[nrow-1][ncol-1]=('F',1); arr[nrow-2][ncol-2]=('F',1); arr[nrow-1][ncol-2]=('F',0); arr[nrow-2][ncol-1]=('F',0)
    assert all(c is not None for r in arr for c in r)
    return arr,ch
def dm_decode(w,h,bits):
    assert w==h
    sz=[s for s in SIZES if s[0]==w]; assert sz; n,reg,ndata,necc,nblk=sz[0]
    M=lambda x,y: bits[y*w+x]=='1'
    rs=n//reg  # region size incl border
    inner=rs-2
    for ry in range(reg):
        for rx in range(reg):
            ox,oy=rx*rs,ry*rs
            for k in range(rs):
                assert M(ox,oy+k),'left solid'; assert M(ox+k,oy+rs-1),'bottom solid'
                assert M(ox+k,oy)==(k%2==0),('top clock',k); assert M(ox+rs-1,oy+k)==(k%2==1),('right clock',k)
    nm=inner*reg
    arr,nch=placement(nm,nm)
    assert nch==ndata+necc,(nch,ndata,necc)
    cw=[0]*nch
    for r in range(nm):
        for c in range(nm):
            X=(c//inner)*rs+1+c%inner; Y=(r//inner)*rs+1+r%inner
            ch,b=arr[r][c]
            if ch=='F': assert M(X,Y)==bool(b),'fixed pattern'; continue
            if M(X,Y): cw[ch]|=1<<(7-b)
    data=cw[:ndata]; ecc=cw[ndata:]
    per=necc//nblk
    for b in range(nblk):
        word=data[b::nblk]+ecc[b::nblk]
        assert len(ecc[b::nblk])==per
        if n==144: assert len(data[b::nblk])==(156 if b<8 else 155)
        assert GF301.valid(word,1,per),('rs',b)
    out=bytearray(); i=0
    while i<ndata:
        c=data[i]; i+=1
        if c==129:
            # verify randomised padding
            for p in range(i,ndata):
                R=(149*(p+1))%253+1; t=129+R
                if t>254: t-=254
                assert data[p]==t,('pad',p)
            break
        elif 1<=c<=128: out.append(c-1)
        elif 130<=c<=229: out+=b'%02d'%(c-130)
        elif c==235: out.append(data[i]-1+128); i+=1
        else: raise AssertionError('codeword %d'%c)
    return bytes(out),n
