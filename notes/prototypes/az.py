import sys
exec(open('hl.py').read().split('# ---------- generators')[0])
inputs=[bytes.fromhex(l) for l in open('in.txt').read().split('\n')[:-1]]
UP=[None,' ']+[chr(65+i) for i in range(26)]
LO=[None,' ']+[chr(97+i) for i in range(26)]
MI=[None,' ']+[chr(i) for i in range(1,14)]+[chr(27),chr(28),chr(29),chr(30),chr(31),'@','\\','^','_','`','|','~',chr(127)]
PU=[None,'\r','\r\n','. ',', ',': ','!','"','#','$','%','&',"'",'(',')','*','+',',','-','.','/',':',';','<','=','>','?','[',']','{','}']
DI=[None,' ']+list('0123456789')+[',','.']
def az_decode(bits,ws=12):
    out=bytearray(); i=0; n=len(bits); mode='U'; shift=None
    def rd(k):
        nonlocal i
        v=int(bits[i:i+k],2); i+=k; return v
    while True:
        cur=shift or mode
        w=4 if cur=='D' else 5
        if n-i<w: break
        if n-i<ws and set(bits[i:])<={'1'}: break   # stuffing pad: a run of fewer than ws one-bits at a code boundary
        v=rd(w)
        wasshift=shift is not None; shift=None
        if cur=='U':
            if v==0: shift='P'
            elif v<28: out+=UP[v].encode('latin1')
            elif v==28: mode='L'
            elif v==29: mode='M'
            elif v==30: mode='D'
            else: shift='B'
        elif cur=='L':
            if v==0: shift='P'
            elif v<28: out+=LO[v].encode('latin1')
            elif v==28: shift='U'
            elif v==29: mode='M'
            elif v==30: mode='D'
            else: shift='B'
        elif cur=='M':
            if v==0: shift='P'
            elif v<28: out+=MI[v].encode('latin1')
            elif v==28: mode='L'
            elif v==29: mode='U'
            elif v==30: mode='P'
            else: shift='B'
        elif cur=='P':
            if v==0: raise Exception('FLG')
            elif v<31: out+=PU[v].encode('latin1')
            else:
                if wasshift: raise Exception('U/L under shift')
                mode='U'
        elif cur=='D':
            if v==0: shift='P'
            elif v<14: out+=DI[v].encode('latin1')
            elif v==14: mode='U'
            else: shift='U'
        if shift=='B':
            shift=None
            if n-i<5: break
            L=rd(5)
            if L==0:
                if n-i<11: break
                L=rd(11)+31
            for _ in range(L):
                if n-i<8: raise Exception('truncated B/S')
                out.append(rd(8))
    return bytes(out), bits[i:]
lines=open('out_aztec.txt').read().split('\n')
bad=0
for inp,l in zip(inputs,lines):
    try: d,rest=az_decode(l)
    except Exception as e: d,rest=('EXC',e),''
    if d!=inp or rest!='':
        bad+=1
        if bad<=10: print('AZ MISMATCH',inp,l,d,rest)
print('aztec mismatches',bad,'of',len(inputs))
