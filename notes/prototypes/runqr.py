import random, subprocess, sys
from qrdec import *
random.seed(int(sys.argv[1]) if len(sys.argv)>1 else 1)
N=int(sys.argv[2]) if len(sys.argv)>2 else 600
cases=[]
def rnd(alpha,n): return bytes(random.choice(alpha) for _ in range(n))
DIG=b'0123456789'; AL=ALNUM.encode(); ALLB=bytes(range(256))
for _ in range(N):
    mode=random.randrange(4); lvl=random.randrange(4)
    n=random.choice([0,1,2,3,4,5,7,10,17,30,60,100,200,400,800,1500,2500]) if random.random()<0.8 else random.randrange(3000)
    kind=random.randrange(5)
    data=rnd([DIG,AL,ALLB,b'abc \xc3\xa9',DIG+b'+-'][kind],n)
    cases.append((data,lvl,mode))
cases+= [(b'',l,m) for l in range(4) for m in range(4)]
cases+= [(b'+12',1,1),(b'+12',1,0),(b'hello world',3,3)]
inp='\n'.join('qr %s %d %d'%(d.hex() or '""',l,m) for d,l,m in cases)+'\n'
inp=inp.replace('""','')
inp='\n'.join('qr -%s %d %d'%(d.hex(),l,m) for d,l,m in cases)+'\n'
r=subprocess.run(['/tmp/scratch/p2/dumper'],input=inp,capture_output=True,text=True)
lines=r.stdout.split('\n')
st=dict(ok=0,err=0,bad=0); vs=set(); ms=set()
for (d,l,m),line in zip(cases,lines):
    if line.startswith('ERR'): st['err']+=1; continue
    if not line.startswith('OK'): print('??',line[:80],d[:20],l,m); continue
    _,w,h,bits=line.split()
    try:
        res=qr_decode(int(w),int(h),bits)
        vs.add(res['v']); ms.add(res['mask'])
        if res['data']!=d or res['level']!='LMQH'[l]:
            st['bad']+=1
            if st['bad']<15: print('MISMATCH',d[:40],l,m,res['v'],res['level'],res['modes'],res['data'][:40])
        else: st['ok']+=1
    except AssertionError as e:
        st['bad']+=1
        if st['bad']<15: print('INVALID',d[:40],l,m,e)
print(st,'versions',len(vs),'masks',sorted(ms))
