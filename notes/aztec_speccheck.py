#!/usr/bin/env python3
"""speccheck.py ops.txt impl.txt  -- runs the Lean spec decoder (bvdrv spec.aztec) on every picture the
implementation produced and checks: decoded content == payload, explicit layer request honoured, shapes seen."""
import sys, subprocess, time, collections
ops=open(sys.argv[1]).read().split('\n')[:-1]
res=open(sys.argv[2]).read().split('\n')[:-1]
assert len(ops)==len(res)
DRV=sys.argv[3] if len(sys.argv)>3 else '/tmp/agents/aztec/verif/lean/.lake/build/bin/bvdrv'
specops=[]; idx=[]
for i,(o,r) in enumerate(zip(ops,res)):
    f=o.split()
    if f[0]!='aztec' or not r.startswith('ok '): continue
    kv=dict(x.split('=',1) for x in r.split()[1:])
    pal=kv['pal'].split(';')
    darkdigit=[str(k) for k,c in enumerate(pal) if c.startswith('Gray16/0000')]
    assert len(darkdigit)==1 and len(pal)<=2,(pal,)
    px=''.join('1' if ch==darkdigit[0] else '0' for ch in kv['px'])
    specops.append('spec.aztec %s %s %s'%(kv['w'],kv['h'],px)); idx.append(i)
t=time.time()
out=subprocess.run([DRV],input='\n'.join(specops)+'\n',capture_output=True,text=True).stdout.split('\n')[:-1]
dt=time.time()-t
assert len(out)==len(specops),(len(out),len(specops))
st=collections.Counter(); shapes=set(); fails=collections.Counter()
for i,line in zip(idx,out):
    f=ops[i].split(); payload=f[1]; req=int(f[3]); pct=int(f[2])
    if line.startswith('ok '):
        kv=dict(x.split('=',1) for x in line.split()[1:])
        shape=(kv['compact']=='1',int(kv['layers'])); shapes.add(shape)
        okreq = req==0 or shape==(req<0,abs(req))
        if kv['content']!=payload or not okreq:
            st['MISMATCH']+=1; print('MISMATCH',ops[i][:120],line[:160])
        elif payload=='-': st['empty-accepted']+=1; print('EMPTY ACCEPTED',ops[i],line[:100])
        else: st['ok']+=1
    else:
        if payload=='-': st['empty-fail(known)']+=1; fails[line]+=1
        else: st['FAIL']+=1; print('FAIL',ops[i][:120],line)
print(dict(st),'shapes',len(shapes),'missing',sorted(set([(True,l) for l in range(1,5)]+[(False,l) for l in range(1,33)])-shapes),'spec time %.1fs for %d symbols'%(dt,len(specops)))
for k,v in fails.items(): print('  empty payload:',v,'x',k)
