module verifharness

go 1.23.5

require github.com/boombuler/barcode v0.0.0

replace github.com/boombuler/barcode => /repo
