// mutate — a small mutation generator used to measure how much of /repo's behaviour the generated workloads observe
// (DESIGN §11.9). It is not part of any check.
//
//	mutate list <repo>              one mutant per line: id <TAB> file <TAB> offset <TAB> old <TAB> new <TAB> line:col
//	mutate apply <repo copy> <id>   rewrites the file of mutant <id> in the copy (ids are those of `list` on the same tree)
package main

import (
	"fmt"
	"go/ast"
	"go/parser"
	"go/token"
	"os"
	"path/filepath"
	"sort"
	"strconv"
	"strings"
)

type mutant struct {
	file     string
	off, end int
	old, new string
	pos      string
}

var swaps = map[token.Token][]string{
	token.LSS: {"<=", "!="}, token.LEQ: {"<", "=="}, token.GTR: {">=", "!="}, token.GEQ: {">", "=="},
	token.EQL: {"!="}, token.NEQ: {"=="}, token.ADD: {"-"}, token.SUB: {"+"}, token.MUL: {"+"},
	token.QUO: {"*"}, token.REM: {"/"}, token.LAND: {"||"}, token.LOR: {"&&"}, token.SHL: {">>"}, token.SHR: {"<<"},
	token.AND: {"|"}, token.OR: {"&"}, token.XOR: {"&"},
}

// delMode: enumerate statement deletions instead of the expression-level mutants (MUTATE_CLASS=del)
var delMode = os.Getenv("MUTATE_CLASS") == "del"

func collect(repo string) []mutant {
	var out []mutant
	filepath.Walk(repo, func(path string, info os.FileInfo, err error) error {
		if err != nil || info.IsDir() {
			if info != nil && info.IsDir() && strings.HasPrefix(info.Name(), ".") && path != repo {
				return filepath.SkipDir
			}
			return nil
		}
		if !strings.HasSuffix(path, ".go") || strings.HasSuffix(path, "_test.go") || strings.HasSuffix(path, "export_verif.go") {
			return nil
		}
		fset := token.NewFileSet()
		src, _ := os.ReadFile(path)
		f, err := parser.ParseFile(fset, path, src, 0)
		if err != nil {
			return nil
		}
		rel, _ := filepath.Rel(repo, path)
		depthLit := 0
		var visit func(n ast.Node) bool
		add := func(p, e token.Pos, nw string) {
			o, en := fset.Position(p).Offset, fset.Position(e).Offset
			out = append(out, mutant{rel, o, en, string(src[o:en]), nw, fmt.Sprintf("%d:%d", fset.Position(p).Line, fset.Position(p).Column)})
		}
		visit = func(n ast.Node) bool {
			switch v := n.(type) {
			case *ast.CompositeLit:
				// tables: do not mutate the entries (they are regenerated into the model and covered by certificates)
				depthLit++
				for _, e := range v.Elts {
					ast.Inspect(e, visit)
				}
				depthLit--
				return false
			case *ast.GenDecl:
				if v.Tok == token.IMPORT {
					return false
				}
			case *ast.BinaryExpr:
				if depthLit == 0 && !delMode {
					for _, nw := range swaps[v.Op] {
						add(v.OpPos, v.OpPos+token.Pos(len(v.Op.String())), nw)
					}
				}
			case *ast.BasicLit:
				if depthLit == 0 && v.Kind == token.INT && !delMode {
					if x, err := strconv.ParseInt(v.Value, 0, 64); err == nil {
						add(v.Pos(), v.End(), strconv.FormatInt(x+1, 10))
						if x > 0 {
							add(v.Pos(), v.End(), strconv.FormatInt(x-1, 10))
						}
					}
				}
			case *ast.IfStmt:
				if depthLit == 0 && !delMode {
					o, e := fset.Position(v.Cond.Pos()).Offset, fset.Position(v.Cond.End()).Offset
					out = append(out, mutant{rel, o, e, string(src[o:e]), "!(" + string(src[o:e]) + ")", fmt.Sprintf("%d:%d", fset.Position(v.Cond.Pos()).Line, fset.Position(v.Cond.Pos()).Column)})
				}
			case *ast.UnaryExpr:
				if depthLit == 0 && v.Op == token.NOT && !delMode {
					add(v.OpPos, v.OpPos+1, "")
				}
			case *ast.BlockStmt:
				// statement deletions (class "del"): an if without else, an assignment to existing variables, an
				// expression statement, ++/--; declarations stay (deleting them does not compile)
				if delMode && depthLit == 0 {
					for _, st := range v.List {
						del := false
						switch x := st.(type) {
						case *ast.IfStmt:
							del = x.Else == nil && x.Init == nil
						case *ast.AssignStmt:
							del = x.Tok != token.DEFINE
						case *ast.ExprStmt:
							del = true
						case *ast.IncDecStmt:
							del = true
						}
						if del {
							o, e := fset.Position(st.Pos()).Offset, fset.Position(st.End()).Offset
							out = append(out, mutant{rel, o, e, string(src[o:e]), "{}", fmt.Sprintf("%d:%d", fset.Position(st.Pos()).Line, fset.Position(st.Pos()).Column)})
						}
					}
				}
			}
			return true
		}
		ast.Inspect(f, visit)
		return nil
	})
	sort.SliceStable(out, func(i, j int) bool {
		if out[i].file != out[j].file {
			return out[i].file < out[j].file
		}
		return out[i].off < out[j].off
	})
	return out
}

func main() {
	if len(os.Args) < 3 {
		fmt.Fprintln(os.Stderr, "usage: mutate list <repo> | apply <copy> <id>")
		os.Exit(2)
	}
	switch os.Args[1] {
	case "list":
		for i, m := range collect(os.Args[2]) {
			flat := strings.NewReplacer("\n", " ", "\t", " ", "\r", "")
			fmt.Printf("%d\t%s\t%d\t%s\t%s\t%s\n", i, m.file, m.off, flat.Replace(m.old), flat.Replace(m.new), m.pos)
		}
	case "apply":
		// ids refer to the pristine tree: the copy must be pristine when this is called
		ms := collect(os.Args[2])
		id, _ := strconv.Atoi(os.Args[3])
		if id < 0 || id >= len(ms) {
			os.Exit(2)
		}
		m := ms[id]
		p := filepath.Join(os.Args[2], m.file)
		src, _ := os.ReadFile(p)
		nw := string(src[:m.off]) + m.new + string(src[m.end:])
		if err := os.WriteFile(p, []byte(nw), 0o644); err != nil {
			os.Exit(1)
		}
		fmt.Printf("%s %s: %q -> %q\n", m.file, m.pos, m.old, m.new)
	}
}
