package main

// funcs.go — translation of straight-line integer/boolean Go functions into Lean (DESIGN §1.2 item 3).
//
// Supported: parameters and results of integer or bool type; receivers that are structs of integer fields
// (passed as one Int parameter per field, in declaration order) or named integer types (one parameter);
// `:=`, `var`, `=`, `+=`, `-=`, `++`, `--`, `if/else`, `switch` on a tag with constant cases, `return`, `break`;
// expressions over + - * / % << >> & | ^ == != < <= > >= && || ! unary-, conversions between integer types,
// calls of other translated functions/methods on the same receiver. A trailing call of a func-typed parameter
// (`set(x, y, val)`) is translated as returning its last argument.
// Go `/` and `%` truncate: Int.tdiv / Int.tmod. Constants are folded by go/types.

import (
	"fmt"
	"go/ast"
	"go/constant"
	"go/token"
	"go/types"
	"sort"
	"strings"
)

type fnTrans struct {
	info     *types.Info
	recvName string
	recvFlds []string // struct receiver: field names; scalar receiver: nil
	fnParams map[string]bool
	known    map[string]string // go func/method name -> lean name
	recvArgs string            // lean text passing the receiver on to other methods
	err      error
}

func (t *fnTrans) fail(format string, a ...interface{}) string {
	if t.err == nil {
		t.err = fmt.Errorf(format, a...)
	}
	return "0"
}

func isIntType(ty types.Type) bool {
	b, ok := ty.Underlying().(*types.Basic)
	return ok && b.Info()&types.IsInteger != 0
}

func isBoolType(ty types.Type) bool {
	b, ok := ty.Underlying().(*types.Basic)
	return ok && b.Info()&types.IsBoolean != 0
}

func (t *fnTrans) expr(e ast.Expr) string {
	if tv, ok := t.info.Types[e]; ok && tv.Value != nil {
		switch tv.Value.Kind() {
		case constant.Int:
			s := tv.Value.ExactString()
			if strings.HasPrefix(s, "-") {
				return "(" + s + ")"
			}
			return "(" + s + " : Int)"
		case constant.Bool:
			if constant.BoolVal(tv.Value) {
				return "true"
			}
			return "false"
		}
	}
	switch v := e.(type) {
	case *ast.ParenExpr:
		return "(" + t.expr(v.X) + ")"
	case *ast.Ident:
		return "v_" + v.Name
	case *ast.SelectorExpr:
		if id, ok := v.X.(*ast.Ident); ok && id.Name == t.recvName && t.recvFlds != nil {
			return "r_" + v.Sel.Name
		}
		return t.fail("unsupported selector %s", v.Sel.Name)
	case *ast.UnaryExpr:
		switch v.Op {
		case token.NOT:
			return "(!" + t.expr(v.X) + ")"
		case token.SUB:
			return "(-" + t.expr(v.X) + ")"
		}
		return t.fail("unsupported unary %s", v.Op)
	case *ast.BinaryExpr:
		l, r := t.expr(v.X), t.expr(v.Y)
		switch v.Op {
		case token.ADD:
			return "(" + l + " + " + r + ")"
		case token.SUB:
			return "(" + l + " - " + r + ")"
		case token.MUL:
			return "(" + l + " * " + r + ")"
		case token.QUO:
			return "(Int.tdiv " + l + " " + r + ")"
		case token.REM:
			return "(Int.tmod " + l + " " + r + ")"
		case token.SHL:
			return "(" + l + " * 2 ^ (" + r + ").toNat)"
		case token.SHR:
			return "(" + l + " >>> (" + r + ").toNat)"
		case token.EQL:
			return "(" + l + " == " + r + ")"
		case token.NEQ:
			return "(" + l + " != " + r + ")"
		case token.LSS:
			return "(decide (" + l + " < " + r + "))"
		case token.LEQ:
			return "(decide (" + l + " ≤ " + r + "))"
		case token.GTR:
			return "(decide (" + l + " > " + r + "))"
		case token.GEQ:
			return "(decide (" + l + " ≥ " + r + "))"
		case token.LAND:
			return "(" + l + " && " + r + ")"
		case token.LOR:
			return "(" + l + " || " + r + ")"
		}
		return t.fail("unsupported binary %s", v.Op)
	case *ast.CallExpr:
		// conversion?
		if tv, ok := t.info.Types[v.Fun]; ok && tv.IsType() {
			if len(v.Args) == 1 && isIntType(tv.Type) {
				inner := t.expr(v.Args[0])
				from := t.info.TypeOf(v.Args[0])
				// narrowing to byte of a wider value wraps; the functions in scope only convert values that fit
				if b, ok := tv.Type.Underlying().(*types.Basic); ok && (b.Kind() == types.Uint8) {
					if fb, ok := from.Underlying().(*types.Basic); ok && fb.Kind() != types.Uint8 && fb.Kind() != types.UntypedInt && fb.Kind() != types.UntypedRune {
						return "(Int.emod " + inner + " 256)"
					}
				}
				return inner
			}
			return t.fail("unsupported conversion")
		}
		switch f := v.Fun.(type) {
		case *ast.Ident:
			if ln, ok := t.known[f.Name]; ok {
				args := []string{}
				for _, a := range v.Args {
					args = append(args, t.expr(a))
				}
				return "(" + ln + " " + strings.Join(args, " ") + ")"
			}
			return t.fail("call of untranslated function %s", f.Name)
		case *ast.SelectorExpr:
			if id, ok := f.X.(*ast.Ident); ok && id.Name == t.recvName {
				if ln, ok := t.known["."+f.Sel.Name]; ok {
					args := []string{}
					for _, a := range v.Args {
						args = append(args, t.expr(a))
					}
					return "(" + ln + " " + t.recvArgs + " " + strings.Join(args, " ") + ")"
				}
			}
			return t.fail("call of untranslated method %s", f.Sel.Name)
		}
	}
	return t.fail("unsupported expression %T", e)
}

func (t *fnTrans) stmts(list []ast.Stmt, ind string, b *strings.Builder) {
	for _, s := range list {
		t.stmt(s, ind, b)
	}
}

func (t *fnTrans) lhsName(e ast.Expr) string {
	if id, ok := e.(*ast.Ident); ok {
		return "v_" + id.Name
	}
	return t.fail("unsupported assignment target %T", e)
}

func (t *fnTrans) stmt(s ast.Stmt, ind string, b *strings.Builder) {
	switch v := s.(type) {
	case *ast.ReturnStmt:
		if len(v.Results) != 1 {
			t.fail("return with %d results", len(v.Results))
			return
		}
		fmt.Fprintf(b, "%sreturn %s\n", ind, t.expr(v.Results[0]))
	case *ast.AssignStmt:
		if len(v.Lhs) != 1 || len(v.Rhs) != 1 {
			t.fail("multi-assignment")
			return
		}
		n := t.lhsName(v.Lhs[0])
		r := t.expr(v.Rhs[0])
		switch v.Tok {
		case token.DEFINE:
			ty := "Int"
			if isBoolType(t.info.TypeOf(v.Rhs[0])) {
				ty = "Bool"
			}
			fmt.Fprintf(b, "%slet mut %s : %s := %s\n", ind, n, ty, r)
		case token.ASSIGN:
			fmt.Fprintf(b, "%s%s := %s\n", ind, n, r)
		case token.ADD_ASSIGN:
			fmt.Fprintf(b, "%s%s := %s + %s\n", ind, n, n, r)
		case token.SUB_ASSIGN:
			fmt.Fprintf(b, "%s%s := %s - %s\n", ind, n, n, r)
		default:
			t.fail("unsupported assignment %s", v.Tok)
		}
	case *ast.IncDecStmt:
		n := t.lhsName(v.X)
		if v.Tok == token.INC {
			fmt.Fprintf(b, "%s%s := %s + 1\n", ind, n, n)
		} else {
			fmt.Fprintf(b, "%s%s := %s - 1\n", ind, n, n)
		}
	case *ast.DeclStmt:
		gd, ok := v.Decl.(*ast.GenDecl)
		if !ok || gd.Tok != token.VAR {
			t.fail("unsupported declaration")
			return
		}
		for _, sp := range gd.Specs {
			vs := sp.(*ast.ValueSpec)
			for i, nm := range vs.Names {
				init := "0"
				ty := "Int"
				if obj := t.info.Defs[nm]; obj != nil && isBoolType(obj.Type()) {
					ty, init = "Bool", "false"
				}
				if i < len(vs.Values) {
					init = t.expr(vs.Values[i])
				}
				fmt.Fprintf(b, "%slet mut v_%s : %s := %s\n", ind, nm.Name, ty, init)
			}
		}
	case *ast.IfStmt:
		if v.Init != nil {
			t.stmt(v.Init, ind, b)
		}
		fmt.Fprintf(b, "%sif %s then\n", ind, t.expr(v.Cond))
		t.block(v.Body.List, ind+"  ", b)
		if v.Else != nil {
			fmt.Fprintf(b, "%selse\n", ind)
			switch e := v.Else.(type) {
			case *ast.BlockStmt:
				t.block(e.List, ind+"  ", b)
			case *ast.IfStmt:
				t.stmt(e, ind+"  ", b)
			}
		}
	case *ast.SwitchStmt:
		if v.Init != nil || v.Tag == nil {
			t.fail("unsupported switch form")
			return
		}
		tag := t.expr(v.Tag)
		first := true
		var def []ast.Stmt
		hasDef := false
		for _, c := range v.Body.List {
			cc := c.(*ast.CaseClause)
			if cc.List == nil {
				def, hasDef = cc.Body, true
				continue
			}
			var conds []string
			for _, e := range cc.List {
				conds = append(conds, "("+tag+" == "+t.expr(e)+")")
			}
			kw := "else if"
			if first {
				kw = "if"
				first = false
			}
			fmt.Fprintf(b, "%s%s %s then\n", ind, kw, strings.Join(conds, " || "))
			t.block(cc.Body, ind+"  ", b)
		}
		if hasDef {
			if first {
				t.block(def, ind, b)
			} else {
				fmt.Fprintf(b, "%selse\n", ind)
				t.block(def, ind+"  ", b)
			}
		}
	case *ast.BranchStmt:
		if v.Tok != token.BREAK {
			t.fail("unsupported branch %s", v.Tok)
		}
		// `break` at the end of a case body: nothing to do
	case *ast.ExprStmt:
		// trailing call of a func-typed parameter: the function's observable result is its last argument
		if c, ok := v.X.(*ast.CallExpr); ok {
			if id, ok := c.Fun.(*ast.Ident); ok && t.fnParams[id.Name] && len(c.Args) > 0 {
				fmt.Fprintf(b, "%sreturn %s\n", ind, t.expr(c.Args[len(c.Args)-1]))
				return
			}
		}
		t.fail("unsupported expression statement")
	case *ast.BlockStmt:
		t.block(v.List, ind, b)
	default:
		t.fail("unsupported statement %T", s)
	}
}

func (t *fnTrans) block(list []ast.Stmt, ind string, b *strings.Builder) {
	// drop trailing `break`
	var kept []ast.Stmt
	for _, s := range list {
		if br, ok := s.(*ast.BranchStmt); ok && br.Tok == token.BREAK {
			continue
		}
		kept = append(kept, s)
	}
	if len(kept) == 0 {
		fmt.Fprintf(b, "%spure ()\n", ind)
		return
	}
	t.stmts(kept, ind, b)
}

// translateFuncs renders the configured functions of one package; returns Lean text (possibly with `-- skipped` lines).
func translateFuncs(files []*ast.File, info *types.Info, wanted []string) string {
	want := map[string]int{}
	for i, w := range wanted {
		want[w] = i
	}
	type cand struct {
		key string
		fd  *ast.FuncDecl
	}
	found := make([]*cand, len(wanted))
	for _, f := range files {
		for _, d := range f.Decls {
			fd, ok := d.(*ast.FuncDecl)
			if !ok || fd.Body == nil {
				continue
			}
			key := fd.Name.Name
			if fd.Recv != nil && len(fd.Recv.List) > 0 {
				rt := fd.Recv.List[0].Type
				if s, ok := rt.(*ast.StarExpr); ok {
					rt = s.X
				}
				if id, ok := rt.(*ast.Ident); ok {
					key = id.Name + "." + fd.Name.Name
				}
			}
			if i, ok := want[key]; ok {
				found[i] = &cand{key, fd}
			}
		}
	}
	var out strings.Builder
	known := map[string]string{}
	for i, c := range found {
		if c == nil {
			fmt.Fprintf(&out, "-- skipped function %s: not found\n\n", wanted[i])
			continue
		}
		fd := c.fd
		lean := "f_" + strings.ReplaceAll(c.key, ".", "_")
		t := &fnTrans{info: info, fnParams: map[string]bool{}, known: known}
		var params []string
		if fd.Recv != nil && len(fd.Recv.List) > 0 {
			if len(fd.Recv.List[0].Names) > 0 {
				t.recvName = fd.Recv.List[0].Names[0].Name
			}
			rty := info.TypeOf(fd.Recv.List[0].Type)
			if p, ok := rty.(*types.Pointer); ok {
				rty = p.Elem()
			}
			if st, ok := rty.Underlying().(*types.Struct); ok {
				var ra []string
				for k := 0; k < st.NumFields(); k++ {
					if !isIntType(st.Field(k).Type()) {
						t.fail("receiver field %s is not an integer", st.Field(k).Name())
					}
					t.recvFlds = append(t.recvFlds, st.Field(k).Name())
					params = append(params, "(r_"+st.Field(k).Name()+" : Int)")
					ra = append(ra, "r_"+st.Field(k).Name())
				}
				t.recvArgs = strings.Join(ra, " ")
			} else if isIntType(rty) {
				params = append(params, "(v_"+t.recvName+" : Int)")
				t.recvArgs = "v_" + t.recvName
			} else {
				t.fail("unsupported receiver type")
			}
		}
		for _, fl := range fd.Type.Params.List {
			ty := info.TypeOf(fl.Type)
			for _, nm := range fl.Names {
				switch {
				case isIntType(ty):
					params = append(params, "(v_"+nm.Name+" : Int)")
				case isBoolType(ty):
					params = append(params, "(v_"+nm.Name+" : Bool)")
				default:
					if _, ok := ty.Underlying().(*types.Signature); ok {
						t.fnParams[nm.Name] = true
					} else {
						t.fail("unsupported parameter type %s", ty)
					}
				}
			}
		}
		res := "Int"
		if fd.Type.Results != nil && len(fd.Type.Results.List) == 1 {
			if isBoolType(info.TypeOf(fd.Type.Results.List[0].Type)) {
				res = "Bool"
			}
		} else if len(t.fnParams) > 0 {
			res = "Bool" // the value handed to the callback (setMasked)
		} else {
			t.fail("unsupported result list")
		}
		var body strings.Builder
		// parameters that the Go body assigns to are re-bound as mutable locals
		assigned := map[string]bool{}
		ast.Inspect(fd.Body, func(n ast.Node) bool {
			switch a := n.(type) {
			case *ast.AssignStmt:
				if a.Tok != token.DEFINE {
					for _, l := range a.Lhs {
						if id, ok := l.(*ast.Ident); ok {
							assigned[id.Name] = true
						}
					}
				}
			case *ast.IncDecStmt:
				if id, ok := a.X.(*ast.Ident); ok {
					assigned[id.Name] = true
				}
			}
			return true
		})
		for _, fl := range fd.Type.Params.List {
			for _, nm := range fl.Names {
				if assigned[nm.Name] && !t.fnParams[nm.Name] {
					fmt.Fprintf(&body, "  let mut v_%s := v_%s\n", nm.Name, nm.Name)
				}
			}
		}
		t.block(fd.Body.List, "  ", &body)
		if t.err != nil {
			fmt.Fprintf(&out, "-- skipped function %s: %v\n\n", c.key, t.err)
			continue
		}
		// a final `return default` keeps Lean's do-block total when Go's control flow ends in a switch
		def := "0"
		if res == "Bool" {
			def = "false"
		}
		fmt.Fprintf(&out, "/-- translated from Go `%s` -/\ndef %s %s : %s := Id.run do\n%s  return %s\n\n", c.key, lean, strings.Join(params, " "), res, body.String(), def)
		if fd.Recv != nil {
			known["."+fd.Name.Name] = lean
		} else {
			known[fd.Name.Name] = lean
		}
	}
	return out.String()
}

// the functions in scope per package directory
var wantedFuncs = map[string][]string{
	"utils":      {"RuneToInt", "IntToRune"},
	"qr":         {"versionInfo.totalDataBytes", "versionInfo.charCountBits", "versionInfo.modulWidth", "setMasked"},
	"datamatrix": {"dmCodeSize.RegionRows", "dmCodeSize.RegionColumns", "dmCodeSize.MatrixRows", "dmCodeSize.MatrixColumns", "dmCodeSize.DataCodewords", "dmCodeSize.DataCodewordsForBlock", "dmCodeSize.ErrorCorrectionCodewordsPerBlock"},
	"aztec":      {"totalBitsInLayer", "encodingMode.BitCount"},
	"pdf417":     {"min", "calculateNumberOfRows", "getLeftCodeWord", "getRightCodeWord", "securitylevel.ErrorCorrectionWordCount"},
}

// ---------------------------------------------------------------------------------------------------------------
// call scripts: every call of one callee (a method of the receiver or a func-typed parameter) inside a function,
// in source order, as the list of its integer arguments (the Data Matrix placement helpers, the QR format-information
// cells).  Zero-argument method calls rooted at the receiver (`l.size.MatrixRows()`) become parameters `q_<Method>`;
// other free integer identifiers (Go parameters, locals such as `dim`) become parameters `v_<name>`; an argument
// `slice[const]` contributes the constant index; a byte-typed argument that is a plain identifier is passed through
// (left out; it must be the same identifier in every call).  The conditions under which the calls execute are not
// part of a script — the function must not contain loops, so every call executes at most once, in this order.

type scriptSpec struct {
	fn     string // "recvType.Method" or "function"
	callee string
}

func translateScripts(files []*ast.File, info *types.Info, wanted []scriptSpec) string {
	var out strings.Builder
	for _, w := range wanted {
		var fd *ast.FuncDecl
		for _, f := range files {
			for _, d := range f.Decls {
				c, ok := d.(*ast.FuncDecl)
				if !ok || c.Body == nil {
					continue
				}
				key := c.Name.Name
				if c.Recv != nil && len(c.Recv.List) > 0 {
					rt := c.Recv.List[0].Type
					if s, ok := rt.(*ast.StarExpr); ok {
						rt = s.X
					}
					if id, ok := rt.(*ast.Ident); ok {
						key = id.Name + "." + c.Name.Name
					}
				}
				if key == w.fn {
					fd = c
				}
			}
		}
		if fd == nil {
			fmt.Fprintf(&out, "-- skipped script %s: not found\n\n", w.fn)
			continue
		}
		recv := ""
		if fd.Recv != nil && len(fd.Recv.List) > 0 && len(fd.Recv.List[0].Names) > 0 {
			recv = fd.Recv.List[0].Names[0].Name
		}
		var err error
		fail := func(format string, a ...interface{}) string {
			if err == nil {
				err = fmt.Errorf(format, a...)
			}
			return "0"
		}
		opaque := map[string]bool{}
		free := map[string]bool{}
		var ex func(e ast.Expr) string
		ex = func(e ast.Expr) string {
			if tv, ok := info.Types[e]; ok && tv.Value != nil && tv.Value.Kind() == constant.Int {
				s := tv.Value.ExactString()
				if strings.HasPrefix(s, "-") {
					return "(" + s + ")"
				}
				return "(" + s + " : Int)"
			}
			switch v := e.(type) {
			case *ast.ParenExpr:
				return "(" + ex(v.X) + ")"
			case *ast.Ident:
				if !isIntType(info.TypeOf(v)) {
					return fail("identifier %s is not an integer", v.Name)
				}
				free[v.Name] = true
				return "v_" + v.Name
			case *ast.BinaryExpr:
				l, r := ex(v.X), ex(v.Y)
				switch v.Op {
				case token.ADD:
					return "(" + l + " + " + r + ")"
				case token.SUB:
					return "(" + l + " - " + r + ")"
				case token.MUL:
					return "(" + l + " * " + r + ")"
				}
				return fail("unsupported operator %s", v.Op)
			case *ast.IndexExpr:
				if tv, ok := info.Types[v.Index]; ok && tv.Value != nil && tv.Value.Kind() == constant.Int {
					if _, ok := v.X.(*ast.Ident); ok {
						return "(" + tv.Value.ExactString() + " : Int)"
					}
				}
				return fail("unsupported index expression")
			case *ast.CallExpr:
				if len(v.Args) == 0 && recv != "" {
					if sel, ok := v.Fun.(*ast.SelectorExpr); ok {
						root := sel.X
						for {
							if s2, ok := root.(*ast.SelectorExpr); ok {
								root = s2.X
								continue
							}
							break
						}
						if id, ok := root.(*ast.Ident); ok && id.Name == recv {
							opaque[sel.Sel.Name] = true
							return "q_" + sel.Sel.Name
						}
					}
				}
				return fail("unsupported call")
			}
			return fail("unsupported expression %T", e)
		}
		var rowsOut []string
		byteArgs := ""
		first := true
		ast.Inspect(fd.Body, func(n ast.Node) bool {
			switch n.(type) {
			case *ast.ForStmt, *ast.RangeStmt, *ast.FuncLit, *ast.GoStmt, *ast.DeferStmt:
				fail("%T inside the function", n)
				return false
			}
			call, ok := n.(*ast.CallExpr)
			if !ok {
				return true
			}
			isCallee := false
			switch f := call.Fun.(type) {
			case *ast.SelectorExpr:
				if id, ok := f.X.(*ast.Ident); ok && recv != "" && id.Name == recv && f.Sel.Name == w.callee {
					isCallee = true
				}
			case *ast.Ident:
				if recv == "" && f.Name == w.callee {
					isCallee = true
				}
			}
			if !isCallee {
				return true
			}
			var ints []string
			bs := ""
			for _, a := range call.Args {
				ty := info.TypeOf(a)
				if b, ok := ty.Underlying().(*types.Basic); ok && b.Kind() == types.Uint8 {
					if tv, ok := info.Types[a]; ok && tv.Value != nil {
						ints = append(ints, ex(a)) // a byte constant (the bit number)
						continue
					}
					id, ok := a.(*ast.Ident)
					if !ok {
						fail("byte argument is not a parameter name")
						break
					}
					bs += id.Name + ","
					continue
				}
				if isBoolType(ty) {
					if ix, ok := a.(*ast.IndexExpr); ok {
						ints = append(ints, ex(ix))
						continue
					}
					fail("bool argument is not an indexed slice element")
					break
				}
				if !isIntType(ty) {
					fail("argument of type %s", ty)
					break
				}
				ints = append(ints, ex(a))
			}
			if first {
				byteArgs = bs
				first = false
			} else if byteArgs != bs {
				fail("byte arguments differ between the calls")
			}
			rowsOut = append(rowsOut, "    ["+strings.Join(ints, ", ")+"]")
			return false
		})
		if err == nil && len(rowsOut) == 0 {
			fail("no call of %s", w.callee)
		}
		if err != nil {
			fmt.Fprintf(&out, "-- skipped script %s: %v\n\n", w.fn, err)
			continue
		}
		var params []string
		var oq []string
		for k := range opaque {
			oq = append(oq, k)
		}
		sort.Strings(oq)
		for _, k := range oq {
			params = append(params, "(q_"+k+" : Int)")
		}
		for _, fl := range fd.Type.Params.List {
			for _, nm := range fl.Names {
				if free[nm.Name] {
					params = append(params, "(v_"+nm.Name+" : Int)")
					delete(free, nm.Name)
				}
			}
		}
		var fr []string
		for k := range free {
			fr = append(fr, k)
		}
		sort.Strings(fr)
		for _, k := range fr {
			params = append(params, "(v_"+k+" : Int)")
		}
		lean := "s_" + strings.ReplaceAll(w.fn, ".", "_")
		fmt.Fprintf(&out, "/-- translated from Go `%s`: the integer arguments of its calls of `%s` in source order (byte arguments `%s` passed through) -/\ndef %s %s : List (List Int) :=\n  [\n%s\n  ]\n\n",
			w.fn, w.callee, strings.TrimSuffix(byteArgs, ","), lean, strings.Join(params, " "), strings.Join(rowsOut, ",\n"))
	}
	return out.String()
}

var wantedScripts = map[string][]scriptSpec{
	"datamatrix": {{"codeLayout.SetSimple", "Set"}, {"codeLayout.Corner1", "Set"}, {"codeLayout.Corner2", "Set"}, {"codeLayout.Corner3", "Set"}, {"codeLayout.Corner4", "Set"}},
	"qr":         {{"drawFormatInfo", "set"}},
}
