// extract — the TRANSLATOR: regenerates BV/Gen/*.lean from /repo's working tree on every run.
//
// It evaluates, with go/parser + go/types (constant folding by the type checker):
//   - every package-level constant                       -> def c_<name>
//   - every package-level var with a literal initialiser -> def v_<name>
//   - function-local composite literals (x := T{...})    -> def l_<func>_<name>
//   - literal arguments of selected calls                -> def call_<callee> : List (List Int) / List Bytes
//   - syntactic facts used by C11/C15/C16                -> def fact_*
//
// Integers of vars are emitted as Int, non-negative constants as Nat, strings as byte lists,
// structs as tuples in field order, maps as association lists in source order.
// Files are rewritten only when their content changes.
package main

import (
	"bytes"
	"fmt"
	"go/ast"
	"go/constant"
	"go/importer"
	"go/parser"
	"go/token"
	"go/types"
	"os"
	"path/filepath"
	"sort"
	"strings"
)

type ex struct {
	info *types.Info
	fset *token.FileSet
}

var pkgs = []string{".", "utils", "qr", "datamatrix", "aztec", "pdf417", "code128", "code39", "code93", "codabar", "ean", "twooffive"}

func leanName(p string) string {
	switch p {
	case ".":
		return "Root"
	}
	return strings.ToUpper(p[:1]) + p[1:]
}

// leanType renders a Go type as the Lean type used for emitted values.
func leanType(t types.Type) (string, error) {
	switch u := t.Underlying().(type) {
	case *types.Basic:
		switch {
		case u.Info()&types.IsBoolean != 0:
			return "Bool", nil
		case u.Info()&types.IsInteger != 0:
			return "Int", nil
		case u.Info()&types.IsString != 0:
			return "List UInt8", nil
		case u.Info()&types.IsFloat != 0:
			return "", fmt.Errorf("float")
		}
	case *types.Pointer:
		return leanType(u.Elem())
	case *types.Slice:
		e, err := leanType(u.Elem())
		return "List (" + e + ")", err
	case *types.Array:
		e, err := leanType(u.Elem())
		return "List (" + e + ")", err
	case *types.Map:
		k, err := leanType(u.Key())
		if err != nil {
			return "", err
		}
		v, err := leanType(u.Elem())
		return "List ((" + k + ") × (" + v + "))", err
	case *types.Struct:
		var parts []string
		for i := 0; i < u.NumFields(); i++ {
			f, err := leanType(u.Field(i).Type())
			if err != nil {
				return "", err
			}
			parts = append(parts, "("+f+")")
		}
		if len(parts) == 0 {
			return "Unit", nil
		}
		return strings.Join(parts, " × "), nil
	}
	return "", fmt.Errorf("unsupported type %s", t)
}

func bytesLit(s string) string {
	var b strings.Builder
	b.WriteString("[")
	for i := 0; i < len(s); i++ {
		if i > 0 {
			b.WriteString(",")
		}
		fmt.Fprintf(&b, "%d", s[i])
	}
	b.WriteString("]")
	return b.String()
}

func constLit(v constant.Value, asInt bool) (string, error) {
	switch v.Kind() {
	case constant.Int:
		s := v.ExactString()
		if strings.HasPrefix(s, "-") {
			return "(" + s + ")", nil
		}
		return s, nil
	case constant.String:
		return bytesLit(constant.StringVal(v)), nil
	case constant.Bool:
		if constant.BoolVal(v) {
			return "true", nil
		}
		return "false", nil
	}
	return "", fmt.Errorf("unsupported constant kind %v", v.Kind())
}

// val renders expression x (of Go type t) as a Lean term.
func (e *ex) val(x ast.Expr, t types.Type) (string, error) {
	if tv, ok := e.info.Types[x]; ok && tv.Value != nil {
		return constLit(tv.Value, true)
	}
	switch v := x.(type) {
	case *ast.ParenExpr:
		return e.val(v.X, t)
	case *ast.UnaryExpr:
		if v.Op == token.AND {
			return e.val(v.X, t)
		}
	case *ast.CompositeLit:
		ct := e.info.TypeOf(v)
		if ct == nil {
			ct = t
		}
		if ct == nil {
			return "", fmt.Errorf("no type at %v", e.fset.Position(x.Pos()))
		}
		u := ct.Underlying()
		if p, ok := u.(*types.Pointer); ok {
			u = p.Elem().Underlying()
		}
		switch ut := u.(type) {
		case *types.Struct:
			fields := make([]string, ut.NumFields())
			for i, el := range v.Elts {
				if kv, ok := el.(*ast.KeyValueExpr); ok {
					name := kv.Key.(*ast.Ident).Name
					idx := -1
					for j := 0; j < ut.NumFields(); j++ {
						if ut.Field(j).Name() == name {
							idx = j
						}
					}
					if idx < 0 {
						return "", fmt.Errorf("field %s", name)
					}
					r, err := e.val(kv.Value, ut.Field(idx).Type())
					if err != nil {
						return "", err
					}
					fields[idx] = r
				} else {
					r, err := e.val(el, ut.Field(i).Type())
					if err != nil {
						return "", err
					}
					fields[i] = r
				}
			}
			for i := range fields {
				if fields[i] == "" {
					return "", fmt.Errorf("zero-valued struct field not supported at %v", e.fset.Position(x.Pos()))
				}
			}
			return "(" + strings.Join(fields, ", ") + ")", nil
		case *types.Map:
			var out []string
			for _, el := range v.Elts {
				kv := el.(*ast.KeyValueExpr)
				k, err := e.val(kv.Key, ut.Key())
				if err != nil {
					return "", err
				}
				r, err := e.val(kv.Value, ut.Elem())
				if err != nil {
					return "", err
				}
				out = append(out, "("+k+", "+r+")")
			}
			return "[" + strings.Join(out, ",\n  ") + "]", nil
		case *types.Slice, *types.Array:
			var elem types.Type
			if s, ok := ut.(*types.Slice); ok {
				elem = s.Elem()
			} else {
				elem = ut.(*types.Array).Elem()
			}
			var out []string
			for _, el := range v.Elts {
				if _, ok := el.(*ast.KeyValueExpr); ok {
					return "", fmt.Errorf("indexed slice element not supported at %v", e.fset.Position(x.Pos()))
				}
				r, err := e.val(el, elem)
				if err != nil {
					return "", err
				}
				out = append(out, r)
			}
			sep := ", "
			if len(out) > 0 && len(out[0]) > 20 {
				sep = ",\n  "
			}
			return "[" + strings.Join(out, sep) + "]", nil
		}
	}
	return "", fmt.Errorf("unsupported %T at %v", x, e.fset.Position(x.Pos()))
}

type item struct {
	name string
	text string
}

func enclosingFuncName(stack []ast.Node) string {
	for i := len(stack) - 1; i >= 0; i-- {
		if fd, ok := stack[i].(*ast.FuncDecl); ok {
			if fd.Recv != nil && len(fd.Recv.List) > 0 {
				var b bytes.Buffer
				t := fd.Recv.List[0].Type
				if s, ok := t.(*ast.StarExpr); ok {
					t = s.X
				}
				if id, ok := t.(*ast.Ident); ok {
					b.WriteString(id.Name + "_")
				}
				return b.String() + fd.Name.Name
			}
			return fd.Name.Name
		}
	}
	return ""
}

// enclosingRecv: receiver identifier and receiver type name of the enclosing method ("" if none)
func enclosingRecv(stack []ast.Node) (string, string) {
	for i := len(stack) - 1; i >= 0; i-- {
		if fd, ok := stack[i].(*ast.FuncDecl); ok {
			if fd.Recv != nil && len(fd.Recv.List) > 0 && len(fd.Recv.List[0].Names) > 0 {
				t := fd.Recv.List[0].Type
				if s, ok := t.(*ast.StarExpr); ok {
					t = s.X
				}
				if id, ok := t.(*ast.Ident); ok {
					return fd.Recv.List[0].Names[0].Name, id.Name
				}
			}
			return "", ""
		}
	}
	return "", ""
}

// singletonTypes: named struct types of which a package-level variable holds an instance (directly or by pointer);
// a field write through the receiver in a method of such a type is a write to package-level state
func singletonTypes(files []*ast.File, info *types.Info) map[string]bool {
	out := map[string]bool{}
	for _, f := range files {
		for _, d := range f.Decls {
			gd, ok := d.(*ast.GenDecl)
			if !ok || gd.Tok != token.VAR {
				continue
			}
			for _, sp := range gd.Specs {
				vs := sp.(*ast.ValueSpec)
				for _, nm := range vs.Names {
					obj := info.Defs[nm]
					if obj == nil {
						continue
					}
					t := obj.Type()
					if p, ok := t.(*types.Pointer); ok {
						t = p.Elem()
					}
					if n, ok := t.(*types.Named); ok {
						if _, isStruct := n.Underlying().(*types.Struct); isStruct && n.Obj().Pkg() == obj.Pkg() {
							out[n.Obj().Name()] = true
						}
					}
				}
			}
		}
	}
	return out
}

// fixedArrays: local variables and struct fields whose type is a fixed-size array (scratch buffers with a capacity
// that some input may exceed). The pinned tree has none outside its tables; the models use unbounded lists, so a
// fixed capacity is a precondition the models do not carry.
func fixedArrays(files []*ast.File, info *types.Info) []string {
	var out []string
	seen := map[string]bool{}
	add := func(s string) {
		if !seen[s] {
			seen[s] = true
			out = append(out, s)
		}
	}
	for id, obj := range info.Defs {
		v, ok := obj.(*types.Var)
		if !ok || v.Pkg() == nil {
			continue
		}
		if _, isArr := v.Type().Underlying().(*types.Array); !isArr {
			continue
		}
		if v.IsField() {
			add("field:" + id.Name + ":" + v.Type().String())
		} else if v.Parent() != v.Pkg().Scope() {
			add("local:" + id.Name + ":" + v.Type().String())
		}
	}
	sort.Strings(out)
	return out
}

// externalCalls: the functions and methods of OTHER packages (standard library, sibling packages) that the non-test
// code of this package calls. The models assume the semantics of exactly these calls (DESIGN §7 item 5: strconv, strings,
// regexp, math/big, image/color, sync …); a body that starts to use a different library routine (math/bits, hash/crc32,
// bytes.TrimPrefix …) is no longer what the model was written against.
func externalCalls(files []*ast.File, fset *token.FileSet, info *types.Info) []string {
	seen := map[string]bool{}
	for _, f := range files {
		if strings.HasSuffix(fset.Position(f.Pos()).Filename, "export_verif.go") {
			continue
		}
		ast.Inspect(f, func(n ast.Node) bool {
			call, ok := n.(*ast.CallExpr)
			if !ok {
				return true
			}
			var id *ast.Ident
			switch fn := call.Fun.(type) {
			case *ast.SelectorExpr:
				id = fn.Sel
			case *ast.Ident:
				id = fn
			}
			if id == nil {
				return true
			}
			// calls into sibling packages of the library are mirrored by the models themselves (and whether their types
			// resolve depends on where the translator runs): only routines outside the module are listed
			if obj, ok := info.Uses[id].(*types.Func); ok && obj.Pkg() != nil && obj.Pkg().Name() != f.Name.Name &&
				!strings.HasPrefix(obj.Pkg().Path(), "github.com/boombuler/barcode") {
				seen[obj.FullName()] = true
			}
			return true
		})
	}
	var out []string
	for k := range seen {
		out = append(out, k)
	}
	sort.Strings(out)
	return out
}

func main() {
	root := os.Args[1]
	outDir := os.Args[2]
	os.MkdirAll(outDir, 0o755)
	status := 0
	var all []string
	for _, p := range pkgs {
		fset := token.NewFileSet()
		dir := filepath.Join(root, p)
		parsed, err := parser.ParseDir(fset, dir, func(fi os.FileInfo) bool {
			return !strings.HasSuffix(fi.Name(), "_test.go") && !strings.HasPrefix(fi.Name(), "verif_")
		}, parser.ParseComments)
		if err != nil {
			fmt.Fprintf(os.Stderr, "extract: parse %s: %v\n", p, err)
			status = 1
			continue
		}
		for _, pkg := range parsed {
			var files []*ast.File
			var names []string
			for n := range pkg.Files {
				names = append(names, n)
			}
			sort.Strings(names)
			for _, n := range names {
				files = append(files, pkg.Files[n])
			}
			info := &types.Info{Types: map[ast.Expr]types.TypeAndValue{}, Defs: map[*ast.Ident]types.Object{}, Uses: map[*ast.Ident]types.Object{}}
			conf := types.Config{Importer: importer.ForCompiler(fset, "source", nil), Error: func(err error) {}}
			conf.Check(pkg.Name, fset, files, info)
			e := &ex{info, fset}
			singles := singletonTypes(files, info)
			collectDict(p, files, fset, info)
			var items []item
			var skipped []string
			calls := map[string][]string{}
			goStmts := []string{}
			globalWrites := []string{}
			receiverWrites := []string{} // Type_method:field for every assignment to a field of the receiver
			fieldAccess := map[string][]string{} // selector name -> functions in which it is read or written
			aliasAssign := []string{}            // func:field where a struct field is assigned directly from a slice-typed parameter
			lockedFuncs := []string{}            // functions whose body starts with x.m.Lock(); defer x.m.Unlock()
			var stack []ast.Node
			for _, f := range files {
				ast.Inspect(f, func(n ast.Node) bool {
					if n == nil {
						stack = stack[:len(stack)-1]
						return true
					}
					stack = append(stack, n)
					switch d := n.(type) {
					case *ast.SelectorExpr:
						if d.Sel.Name == "polynomes" || d.Sel.Name == "content" || d.Sel.Name == "color" {
							fn := enclosingFuncName(stack)
							fieldAccess[d.Sel.Name] = append(fieldAccess[d.Sel.Name], fn)
						}
					case *ast.FuncDecl:
						if d.Body != nil && len(d.Body.List) >= 2 {
							isCall := func(e ast.Expr, name string) bool {
								c, ok := e.(*ast.CallExpr)
								if !ok {
									return false
								}
								sel, ok := c.Fun.(*ast.SelectorExpr)
								return ok && sel.Sel.Name == name
							}
							if es, ok := d.Body.List[0].(*ast.ExprStmt); ok && isCall(es.X, "Lock") {
								if ds, ok := d.Body.List[1].(*ast.DeferStmt); ok && isCall(ds.Call, "Unlock") {
									lockedFuncs = append(lockedFuncs, enclosingFuncName(append(stack, d)))
								}
							}
						}
					case *ast.GoStmt:
						goStmts = append(goStmts, enclosingFuncName(stack))
					case *ast.ValueSpec:
						fn := enclosingFuncName(stack)
						for i, name := range d.Names {
							if name.Name == "_" {
								continue
							}
							obj := info.Defs[name]
							if c, ok := obj.(*types.Const); ok && fn == "" {
								lit, err := constLit(c.Val(), false)
								if err != nil {
									skipped = append(skipped, "const "+name.Name+": "+err.Error())
									continue
								}
								ty := "Int"
								switch c.Val().Kind() {
								case constant.String:
									ty = "List UInt8"
								case constant.Bool:
									ty = "Bool"
								case constant.Int:
									if constant.Sign(c.Val()) >= 0 {
										ty = "Nat"
									}
								}
								items = append(items, item{"c_" + name.Name, fmt.Sprintf("def c_%s : %s := %s", name.Name, ty, lit)})
								continue
							}
							if fn != "" || i >= len(d.Values) {
								continue
							}
							v, ok := obj.(*types.Var)
							if !ok {
								continue
							}
							ty, err := leanType(v.Type())
							if err != nil {
								skipped = append(skipped, "var "+name.Name+": "+err.Error())
								continue
							}
							txt, err := e.val(d.Values[i], v.Type())
							if err != nil {
								skipped = append(skipped, "var "+name.Name+": "+err.Error())
								continue
							}
							items = append(items, item{"v_" + name.Name, fmt.Sprintf("def v_%s : %s :=\n  %s", name.Name, ty, txt)})
						}
					case *ast.IncDecStmt, *ast.SendStmt:
						// x++ on, or a send to, a package-level variable is run-time state as well (counters, free lists)
						fn := enclosingFuncName(stack)
						var target ast.Expr
						if x, ok := d.(*ast.IncDecStmt); ok {
							target = x.X
						} else {
							target = d.(*ast.SendStmt).Chan
						}
						for {
							switch b := target.(type) {
							case *ast.IndexExpr:
								target = b.X
								continue
							case *ast.SelectorExpr:
								target = b.X
								continue
							case *ast.StarExpr:
								target = b.X
								continue
							case *ast.ParenExpr:
								target = b.X
								continue
							}
							break
						}
						if id, ok := target.(*ast.Ident); ok && fn != "init" && fn != "" {
							if obj, ok := info.Uses[id].(*types.Var); ok && obj.Pkg() != nil && obj.Parent() == obj.Pkg().Scope() {
								globalWrites = append(globalWrites, fn+":"+id.Name)
							}
						}
					case *ast.AssignStmt:
						fn := enclosingFuncName(stack)
						if d.Tok == token.DEFINE && len(d.Lhs) == 1 && len(d.Rhs) == 1 {
							if cl, ok := d.Rhs[0].(*ast.CompositeLit); ok && len(cl.Elts) > 0 {
								id := d.Lhs[0].(*ast.Ident)
								t := info.TypeOf(cl)
								if t != nil {
									if ty, err := leanType(t); err == nil {
										if txt, err := e.val(cl, t); err == nil {
											nm := "l_" + fn + "_" + id.Name
											items = append(items, item{nm, fmt.Sprintf("def %s : %s :=\n  %s", nm, ty, txt)})
										}
									}
								}
							}
						}
						// struct field := slice-typed parameter (aliasing the caller's buffer)
						for i, l := range d.Lhs {
							if sel, ok := l.(*ast.SelectorExpr); ok && i < len(d.Rhs) {
								if id, ok := d.Rhs[i].(*ast.Ident); ok {
									if obj, ok := info.Uses[id].(*types.Var); ok {
										if _, isSlice := obj.Type().Underlying().(*types.Slice); isSlice {
											// is it a parameter of the enclosing function?
											for k := len(stack) - 1; k >= 0; k-- {
												if fd, ok := stack[k].(*ast.FuncDecl); ok && fd.Type.Params != nil {
													for _, fld := range fd.Type.Params.List {
														for _, nm := range fld.Names {
															if info.Defs[nm] == obj {
																aliasAssign = append(aliasAssign, fn+":"+sel.Sel.Name)
															}
														}
													}
													break
												}
											}
										}
									}
								}
							}
						}
						// run-time writes to package-level variables (outside init)
						if fn != "init" && fn != "" {
							for _, l := range d.Lhs {
								base := l
								for {
									switch b := base.(type) {
									case *ast.IndexExpr:
										base = b.X
										continue
									case *ast.SelectorExpr:
										base = b.X
										continue
									case *ast.StarExpr:
										base = b.X
										continue
									case *ast.ParenExpr:
										base = b.X
										continue
									}
									break
								}
								if id, ok := base.(*ast.Ident); ok {
									if obj, ok := info.Uses[id].(*types.Var); ok && obj.Parent() == obj.Pkg().Scope() {
										globalWrites = append(globalWrites, fn+":"+id.Name)
									}
									if rn, rt := enclosingRecv(stack); rn != "" && id.Name == rn && singles[rt] && base != l {
										globalWrites = append(globalWrites, fn+":"+rt+"(singleton)")
									}
									if rn, _ := enclosingRecv(stack); rn != "" && id.Name == rn && base != l {
										// which field of the receiver is written (first selector above the receiver)
										fld := "?"
										cur := l
										for {
											switch b := cur.(type) {
											case *ast.IndexExpr:
												cur = b.X
												continue
											case *ast.StarExpr:
												cur = b.X
												continue
											case *ast.ParenExpr:
												cur = b.X
												continue
											case *ast.SelectorExpr:
												if x, ok := b.X.(*ast.Ident); ok && x.Name == rn {
													fld = b.Sel.Name
												} else {
													cur = b.X
													continue
												}
											}
											break
										}
										receiverWrites = append(receiverWrites, fn+":"+fld)
									}
								}
							}
						}
					case *ast.CallExpr:
						callee := ""
						switch f := d.Fun.(type) {
						case *ast.SelectorExpr:
							callee = f.Sel.Name
						case *ast.Ident:
							callee = f.Name
						}
						switch callee {
						case "NewGaloisField", "generateCheckWords", "Compile", "MustCompile":
							var args []string
							okAll := true
							for _, a := range d.Args {
								if tv, ok := info.Types[a]; ok && tv.Value != nil {
									lit, err := constLit(tv.Value, true)
									if err != nil {
										okAll = false
									}
									args = append(args, lit)
								} else {
									args = append(args, "")
								}
							}
							if okAll {
								var lits []string
								for _, a := range args {
									if a != "" {
										lits = append(lits, a)
									}
								}
								calls[callee] = append(calls[callee], "["+strings.Join(lits, ", ")+"]")
							}
						}
					}
					return true
				})
			}
			var b strings.Builder
			ln := leanName(p)
			fmt.Fprintf(&b, "-- GENERATED by go/cmd/extract from /repo/%s — do not edit; regenerated on every run.\nimport BV.Base\nset_option maxRecDepth 100000\nnamespace BV.Gen.%s\n\n", p, ln)
			seen := map[string]bool{}
			for _, it := range items {
				if seen[it.name] {
					continue
				}
				seen[it.name] = true
				b.WriteString(it.text + "\n\n")
			}
			var cn []string
			for k := range calls {
				cn = append(cn, k)
			}
			sort.Strings(cn)
			for _, k := range cn {
				ty := "List (List Int)"
				if k == "Compile" || k == "MustCompile" {
					ty = "List (List (List UInt8))"
				}
				fmt.Fprintf(&b, "def call_%s : %s :=\n  [%s]\n\n", k, ty, strings.Join(calls[k], ",\n   "))
			}
			q := func(xs []string) string {
				var o []string
				for _, x := range xs {
					o = append(o, fmt.Sprintf("%q", x))
				}
				return "[" + strings.Join(o, ", ") + "]"
			}
			fmt.Fprintf(&b, "def fact_goStatements : List String := %s\n\n", q(goStmts))
			fmt.Fprintf(&b, "def fact_globalWrites : List String := %s\n\n", q(globalWrites))
			fmt.Fprintf(&b, "def fact_fixedArrays : List String := %s\n\n", q(fixedArrays(files, info)))
			fmt.Fprintf(&b, "def fact_externalCalls : List String := %s\n\n", q(externalCalls(files, fset, info)))
			{
				seen := map[string]bool{}
				var u []string
				for _, x := range receiverWrites {
					if !seen[x] {
						seen[x] = true
						u = append(u, x)
					}
				}
				sort.Strings(u)
				fmt.Fprintf(&b, "def fact_receiverWrites : List String := %s\n\n", q(u))
			}
			fmt.Fprintf(&b, "def fact_aliasAssign : List String := %s\n\n", q(aliasAssign))
			fmt.Fprintf(&b, "def fact_lockedFuncs : List String := %s\n\n", q(lockedFuncs))
			uniq := func(xs []string) []string {
				seen := map[string]bool{}
				var o []string
				for _, x := range xs {
					if !seen[x] {
						seen[x] = true
						o = append(o, x)
					}
				}
				sort.Strings(o)
				return o
			}
			fmt.Fprintf(&b, "def fact_polynomesAccess : List String := %s\n\n", q(uniq(fieldAccess["polynomes"])))
			for _, s := range skipped {
				fmt.Fprintf(&b, "-- skipped: %s\n", s)
			}
			fmt.Fprintf(&b, "\nend BV.Gen.%s\n", ln)
			path := filepath.Join(outDir, ln+".lean")
			old, _ := os.ReadFile(path)
			if string(old) != b.String() {
				if err := os.WriteFile(path, []byte(b.String()), 0o644); err != nil {
					fmt.Fprintln(os.Stderr, err)
					status = 1
				}
				fmt.Println("extract: wrote", path)
			}
			// functions and call scripts go to a module of their own (`<Pkg>Fns`), imported only by the tie theorems
			// in BV/Props/Gen*.lean, so that an edit of such a function re-checks those theorems and nothing else
			_, hasF := wantedFuncs[p]
			_, hasS := wantedScripts[p]
			if hasF || hasS {
				var fb strings.Builder
				fmt.Fprintf(&fb, "-- GENERATED by /verif/go/cmd/extract from /repo/%s — do not edit\nimport BV.Gen.%s\nnamespace BV.Gen.%s\n\n", p, ln, ln)
				if w, ok := wantedFuncs[p]; ok {
					fb.WriteString("/-! ### straight-line functions, translated statement by statement -/\n\n")
					fb.WriteString(translateFuncs(files, info, w))
				}
				if w, ok := wantedScripts[p]; ok {
					fb.WriteString("/-! ### call scripts: the argument lists of straight sequences of calls -/\n\n")
					fb.WriteString(translateScripts(files, info, w))
				}
				fmt.Fprintf(&fb, "end BV.Gen.%s\n", ln)
				fpath := filepath.Join(outDir, ln+"Fns.lean")
				oldf, _ := os.ReadFile(fpath)
				if string(oldf) != fb.String() {
					if err := os.WriteFile(fpath, []byte(fb.String()), 0o644); err != nil {
						fmt.Fprintln(os.Stderr, err)
						status = 1
					}
					fmt.Println("extract: wrote", fpath)
				}
			}
			all = append(all, ln)
		}
	}
	writeDict()
	os.Exit(status)
}

// ---------------------------------------------------------------------------------------------------------------
// dictionary: the string, rune and small integer constants that occur in the non-test source of each package (table
// entries excluded). The generators use them as content fragments and as lengths (go/cmd/harness/gen_dict.go): a value
// the code compares its input with is exactly the value a random generator never produces.

var dict = map[string]map[string]bool{} // "pkg\tkind" -> values (hex for strings, decimal for ints)

func collectDict(pkg string, files []*ast.File, fset *token.FileSet, info *types.Info) {
	add := func(kind, v string) {
		k := pkg + "\t" + kind
		if dict[k] == nil {
			dict[k] = map[string]bool{}
		}
		dict[k][v] = true
	}
	for _, f := range files {
		if strings.HasSuffix(fset.Position(f.Pos()).Filename, "export_verif.go") {
			continue
		}
		depth := 0
		var visit func(n ast.Node) bool
		visit = func(n ast.Node) bool {
			switch v := n.(type) {
			case *ast.ImportSpec:
				return false
			case *ast.CompositeLit:
				// a short byte / rune sequence written as a composite literal is a string in disguise ([]byte{0xEF, 0xBB, 0xBF})
				if tv, ok := info.Types[v]; ok && len(v.Elts) >= 1 && len(v.Elts) <= 48 {
					var elem types.Type
					switch t := tv.Type.Underlying().(type) {
					case *types.Slice:
						elem = t.Elem()
					case *types.Array:
						elem = t.Elem()
					}
					if b, ok := elem.(*types.Basic); elem != nil && ok && (b.Kind() == types.Uint8 || b.Kind() == types.Int32) {
						var sb strings.Builder
						all := true
						for _, e := range v.Elts {
							ev, ok := info.Types[e]
							if !ok || ev.Value == nil || ev.Value.Kind() != constant.Int {
								all = false
								break
							}
							x, _ := constant.Int64Val(ev.Value)
							if b.Kind() == types.Uint8 {
								sb.WriteByte(byte(x))
							} else {
								sb.WriteRune(rune(x))
							}
						}
						if all {
							add("s", fmt.Sprintf("%x", sb.String()))
						}
					}
				}
				// tables are not dictionary material (thousands of entries), except short string-only literals
				if len(v.Elts) > 12 {
					return false
				}
				depth++
				for _, e := range v.Elts {
					ast.Inspect(e, visit)
				}
				depth--
				return false
			case *ast.CallExpr:
				// messages of errors / panics / formats are not compared with input
				if sel, ok := v.Fun.(*ast.SelectorExpr); ok {
					if id, ok := sel.X.(*ast.Ident); ok && (id.Name == "errors" || id.Name == "fmt") {
						return false
					}
				}
				if id, ok := v.Fun.(*ast.Ident); ok && id.Name == "panic" {
					return false
				}
			case ast.Expr:
				if tv, ok := info.Types[v]; ok && tv.Value != nil {
					switch tv.Value.Kind() {
					case constant.String:
						sv := constant.StringVal(tv.Value)
						if len(sv) >= 1 && len(sv) <= 48 {
							add("s", fmt.Sprintf("%x", sv))
						}
						return false
					case constant.Int:
						if x, ok := constant.Int64Val(tv.Value); ok {
							if b, isB := tv.Type.Underlying().(*types.Basic); isB && (b.Kind() == types.Int32 || b.Kind() == types.UntypedRune) && x > 0 && x < 0x110000 {
								add("s", fmt.Sprintf("%x", string(rune(x)))) // a rune constant
							}
							if x >= 2 && x <= 4200 {
								add("i", fmt.Sprint(x))
							} else if x > 4200 && x <= 1<<27 {
								add("I", fmt.Sprint(x)) // a large constant: a threshold for an accumulated quantity rather than a length
							}
						}
						return false
					}
				}
			}
			return true
		}
		ast.Inspect(f, visit)
	}
}

func writeDict() {
	if len(os.Args) < 4 {
		return
	}
	var keys []string
	for k := range dict {
		keys = append(keys, k)
	}
	sort.Strings(keys)
	var b strings.Builder
	for _, k := range keys {
		var vs []string
		for v := range dict[k] {
			vs = append(vs, v)
		}
		sort.Strings(vs)
		for _, v := range vs {
			fmt.Fprintf(&b, "%s\t%s\n", k, v)
		}
	}
	old, _ := os.ReadFile(os.Args[3])
	if string(old) != b.String() {
		os.WriteFile(os.Args[3], []byte(b.String()), 0o644)
	}
}
