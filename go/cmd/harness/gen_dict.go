package main

// gen_dict.go — dictionary-driven contents. The translator (go/cmd/extract) writes the string, rune and small integer
// constants found in the non-test source of every package to a dictionary file (VERIF_DICT). A value the code compares
// its input with — a magic prefix, a byte order mark, a length limit — is exactly the value a random generator never
// produces; here every such string becomes a prefix, suffix, infix and stand-alone content of the family the package
// serves, and every integer becomes a run length (L-1, L, L+1), alone and followed by a token and more of the run.
// On the unchanged tree the dictionary is a fixed set, so the workload stays deterministic; a change that introduces a
// new constant automatically gets inputs built from it (seeds w02: "[)>\x1e05\x1d", w04: EF BB BF, w03: 2047+31).

import (
	"bufio"
	"encoding/hex"
	"os"
	"sort"
	"strconv"
	"strings"
)

type dictT struct {
	strs map[string][]string
	ints map[string][]int
	big  map[string][]int // constants above 4200: thresholds of accumulated quantities
}

var dictCache *dictT

func loadDict() *dictT {
	if dictCache != nil {
		return dictCache
	}
	d := &dictT{map[string][]string{}, map[string][]int{}, map[string][]int{}}
	dictCache = d
	path := os.Getenv("VERIF_DICT")
	if path == "" {
		return d
	}
	f, err := os.Open(path)
	if err != nil {
		return d
	}
	defer f.Close()
	sc := bufio.NewScanner(f)
	for sc.Scan() {
		t := strings.Split(sc.Text(), "\t")
		if len(t) != 3 {
			continue
		}
		switch t[1] {
		case "s":
			if b, err := hex.DecodeString(t[2]); err == nil {
				d.strs[t[0]] = append(d.strs[t[0]], string(b))
			}
		case "i":
			if x, err := strconv.Atoi(t[2]); err == nil {
				d.ints[t[0]] = append(d.ints[t[0]], x)
			}
		case "I":
			if x, err := strconv.Atoi(t[2]); err == nil {
				d.big[t[0]] = append(d.big[t[0]], x)
			}
		}
	}
	for k := range d.ints {
		sort.Ints(d.ints[k])
	}
	return d
}

type dictCfg struct {
	pkgs   []string               // packages whose constants apply
	emit   func(content string)   // one op (or several) for a content
	bodies []string               // ordinary short contents of the family
	runs   []func(n int) string   // homogeneous runs of length n
	toks   []string               // tokens that may follow a run
	maxLen int                    // integers above this are not used as lengths
}

func (g *gen) dictOps(c dictCfg) {
	d := loadDict()
	var strs []string
	var ints []int
	seenS, seenI := map[string]bool{}, map[int]bool{}
	for _, p := range c.pkgs {
		for _, s := range d.strs[p] {
			if !seenS[s] {
				seenS[s] = true
				strs = append(strs, s)
			}
		}
		for _, x := range d.ints[p] {
			if !seenI[x] && x <= c.maxLen {
				seenI[x] = true
				ints = append(ints, x)
			}
		}
	}
	sort.Strings(strs)
	sort.Ints(ints)
	body := func() string { return c.bodies[g.intn(len(c.bodies))] }
	for _, s := range strs {
		c.emit(s)
		c.emit(s + s)
		c.emit(s + body())
		c.emit(body() + s)
		c.emit(body() + s + body())
		c.emit(s + c.runs[g.intn(len(c.runs))](20+g.intn(30)))
		c.emit(c.runs[g.intn(len(c.runs))](20+g.intn(30)) + s)
	}
	// pairs of dictionary strings around a body (header ... trailer)
	if len(strs) > 1 {
		for i := 0; i < g.n(60, 600); i++ {
			a, b := strs[g.intn(len(strs))], strs[g.intn(len(strs))]
			c.emit(a + body() + b)
			if g.intn(3) == 0 {
				c.emit(a + b + body())
			}
		}
	}
	toks := append([]string{}, c.toks...)
	for _, s := range strs {
		if len(s) <= 3 {
			toks = append(toks, s)
		}
	}
	for _, L := range ints {
		for ri, run := range c.runs {
			// long runs are expensive on the model side: all three lengths for the first run kind, L only for the others
			lens := []int{L - 1, L, L + 1}
			if L > 400 && ri > 0 {
				lens = []int{L}
			}
			for _, n := range lens {
				if n < 1 {
					continue
				}
				c.emit(run(n))
				if L > 400 && !g.thorough() && ri > 0 {
					continue
				}
				// the run, a token, and the run continued / something else
				nt := 2
				if L > 400 {
					nt = len(toks)
					if nt > 6 && !g.thorough() {
						nt = 6
					}
				}
				for k := 0; k < nt && len(toks) > 0; k++ {
					t := toks[(k+g.intn(len(toks)))%len(toks)]
					if L > 400 {
						t = toks[k%len(toks)]
					}
					c.emit(run(n) + t + run(3))
					if k%2 == 0 {
						c.emit(body() + run(n) + t + body())
					}
				}
			}
		}
	}
}

// dictAll: the dictionary ops of one family (called from the property generators)
func (g *gen) dictFamily(fam string) {
	bytesRun := func(n int) string { return g.str("\x80\x81\xfe\xff\x90", n) }
	digitRun := func(n int) string { return g.str(digits, n) }
	upperRun := func(n int) string { return g.str("ABCDEFGHIJKLMNOPQRSTUVWXYZ", n) }
	lowerRun := func(n int) string { return g.str("abcdefghijklmnopqrstuvwxyz", n) }
	switch fam {
	case "qr":
		g.dictOps(dictCfg{pkgs: []string{"qr", "utils"}, bodies: []string{"AB12", "hello world", "0123456789", "A"},
			runs: []func(int) string{digitRun, upperRun, bytesRun}, toks: []string{" ", ":", "%", "a"}, maxLen: 3000,
			emit: func(c string) {
				g.emit("qr %s %d 0", hx(c), g.intn(4))
				g.emit("qr %s %d 3", hx(c), g.intn(4))
			}})
	case "dm":
		g.dictOps(dictCfg{pkgs: []string{"datamatrix", "utils"}, bodies: []string{"AB12", "hello", "0123456789", "\x80\xff", "\x1e\x04", "\x1d"},
			runs: []func(int) string{digitRun, lowerRun, bytesRun}, toks: []string{"a", "\x80", "7", "\x1e\x04"}, maxLen: 1600,
			emit: func(c string) { g.emit("dm %s", hx(c)) }})
	case "aztec":
		g.dictOps(dictCfg{pkgs: []string{"aztec", "utils"}, bodies: []string{"AB12", "hello", "12.5", "\x80\xff", "A, b"},
			runs: []func(int) string{bytesRun, digitRun, upperRun}, toks: []string{". ", ", ", ": ", "\r\n", "a", "1"}, maxLen: 2200,
			emit: func(c string) {
				pct := []int{0, 5, 23, 33}[g.intn(4)]
				if len(c) > 1200 {
					pct = []int{0, 5}[g.intn(2)] // long payloads only fit the largest symbols with few check words
				}
				g.emit("aztec %s %d 0", hx(c), pct)
			}})
	case "pdf":
		g.dictOps(dictCfg{pkgs: []string{"pdf417", "utils"}, bodies: []string{"AB12", "hello world", "0123456789012345", "\x80\xff", "a;b"},
			runs: []func(int) string{digitRun, upperRun, bytesRun}, toks: []string{" ", ";", "a", "\x80", "1"}, maxLen: 2800,
			emit: func(c string) { g.emit("pdf %s %d", hx(c), g.intn(9)) }})
	case "c128":
		g.dictOps(dictCfg{pkgs: []string{"code128", "utils"}, bodies: []string{"AB12", "ab", "1234", "\x01"},
			runs: []func(int) string{digitRun, lowerRun, func(n int) string { return g.str("\x01\x02\x1f", n) }}, toks: []string{"a", "\x01", "1", "ñ"}, maxLen: 82,
			emit: func(c string) {
				g.emit("c128 %s", hx(c))
				g.emit("c128nc %s", hx(c))
			}})
	case "c39":
		g.dictOps(dictCfg{pkgs: []string{"code39", "code93", "utils"}, bodies: []string{"AB12", "A-1", "ab", "%"},
			runs: []func(int) string{digitRun, upperRun, lowerRun}, toks: []string{"%", "$", "a", "*"}, maxLen: 60,
			emit: func(c string) {
				o := g.intn(4)
				g.emit("c39 %s %d %d", hx(c), o&1, o>>1)
				g.emit("c93 %s %d %d", hx(c), o&1, o>>1)
			}})
	case "ean":
		g.dictOps(dictCfg{pkgs: []string{"ean", "utils"}, bodies: []string{"123456", "000000", "999999"},
			runs: []func(int) string{digitRun}, toks: []string{"0", "9"}, maxLen: 14,
			emit: func(c string) { g.emit("ean %s", hx(c)) }})
	case "c08":
		g.dictOps(dictCfg{pkgs: []string{"codabar", "twooffive", "utils"}, bodies: []string{"12", "A12B", "99"},
			runs: []func(int) string{digitRun}, toks: []string{"-", "A", "9"}, maxLen: 40,
			emit: func(c string) {
				g.emit("codabar %s", hx(c))
				g.emit("codabar %s", hx("A"+c+"B"))
				g.emit("tof %s %d", hx(c), g.intn(2))
				g.emit("tofcs %s", hx(c))
			}})
	}
}


// dictThresholds: a large integer constant in a 1D package is taken as a threshold for an accumulated sum (check digit
// arithmetic): contents of one repeated character whose value sum lands just below, at and above the constant — for the
// check-character stage functions, and (when the symbol stays below about half a million characters) for the symbol itself.
// The pinned tree has no such constant, so nothing is generated for it (seed y05: a partial-sum reduction above 2^24).
func (g *gen) dictThresholds() {
	d := loadDict()
	type fam struct {
		pkg  string
		vals map[byte]int // character -> value in the check sum
	}
	for _, f := range []fam{{"code39", map[byte]int{'%': 42, 'Z': 35, '7': 7}}, {"code93", map[byte]int{'%': 42, 'Z': 35}}} {
		for _, T := range d.big[f.pkg] {
			for ch, v := range f.vals {
				n := T / v
				if n > 600000 {
					continue
				}
				for dlt := -1; dlt <= 2; dlt++ {
					c := strings.Repeat(string(ch), n+dlt)
					if f.pkg == "code39" {
						g.emit("st.c39.chk %s", hx(c))
						if dlt >= 0 && dlt <= 1 && ch == '%' && n <= 20000 { // (a symbol of millions of modules is beyond the model driver)
							g.emit("c39 %s 1 0", hx(c))
						}
					} else {
						g.emit("st.c93.chk %s 20", hx(c))
						g.emit("st.c93.chk %s 15", hx(c))
					}
				}
				// a mixed tail: the character that crosses the threshold is not the repeated one
				if f.pkg == "code39" {
					g.emit("st.c39.chk %s", hx(strings.Repeat(string(ch), n-1)+"MA"))
					g.emit("st.c39.chk %s", hx(strings.Repeat(string(ch), n-2)+"Z9K"))
				}
			}
		}
	}
}


// pow2Positions: a long run of the densest class of the family (so that the symbol still fits) whose length is 2^k-1,
// 2^k or 2^k+1, followed by a short token of another class: the token then starts at a text position that is a power of
// two — where a position packed into too few bits, a 16-bit counter or a page boundary would show (seed y03: the start
// index of an Aztec binary-shift run kept in 12 bits is wrong from position 4096 on, reachable only behind 4096 digits).
func (g *gen) pow2Positions(fam string) {
	type cfg struct {
		dense []func(n int) string
		toks  []string
		maxK  uint
		emit  func(c string)
	}
	digitRun := func(n int) string { return g.str(digits, n) }
	var c cfg
	switch fam {
	case "aztec":
		c = cfg{dense: []func(int) string{digitRun, func(n int) string { return strings.Repeat("\r\n", n/2) }}, toks: []string{"\x80\x81\x82", "\xe9\xff", "\x00", "aB"}, maxK: 12,
			emit: func(s string) { g.emit("aztec %s %d 0", hx(s), []int{0, 5}[g.intn(2)]) }}
	case "qr":
		c = cfg{dense: []func(int) string{digitRun, func(n int) string { return g.str("ABCDEFGHIJKLMNOPQRSTUVWXYZ0123456789 $%*+-./:", n) }}, toks: []string{"a", "\x80", "A"}, maxK: 11,
			emit: func(s string) { g.emit("qr %s 0 %d", hx(s), []int{0, 3}[g.intn(2)]) }}
	case "pdf":
		c = cfg{dense: []func(int) string{digitRun, func(n int) string { return g.str("ABCDEFGH", n) }}, toks: []string{"a", "\x80\x81", ";", "\x80\x81\x82\x83\x84\x85"}, maxK: 10,
			emit: func(s string) { g.emit("pdf %s %d", hx(s), g.intn(3)) }}
	case "dm":
		c = cfg{dense: []func(int) string{digitRun}, toks: []string{"a", "\x80", "\xff"}, maxK: 11,
			emit: func(s string) { g.emit("dm %s", hx(s)) }}
	default:
		return
	}
	for k := uint(4); k <= c.maxK; k++ {
		for d := -1; d <= 1; d++ {
			n := 1<<k + d
			for ri, run := range c.dense {
				if k >= 10 && !g.thorough() && ri > 0 && d != 0 {
					continue
				}
				for ti, t := range c.toks {
					if k >= 10 && !g.thorough() && ti > 1 {
						continue
					}
					c.emit(run(n) + t)
					if ti == 0 {
						c.emit(run(n) + t + run(5))
					}
				}
			}
		}
	}
}
