package main

import (
	"fmt"
)

var _ = fmt.Sprint

// ---------------------------------------------------------------- QR Code (C01)

// qrDataCodewords[version-1][level L,M,Q,H]: number of data codewords, ISO/IEC 18004 Table 7/9
// (transcribed from notes/spec_reference.md, not from the Go tables).
var qrDataCodewords = [40][4]int{
	{19, 16, 13, 9}, {34, 28, 22, 16}, {55, 44, 34, 26}, {80, 64, 48, 36}, {108, 86, 62, 46}, {136, 108, 76, 60}, {156, 124, 88, 66}, {194, 154, 110, 86}, {232, 182, 132, 100}, {274, 216, 154, 122}, {324, 254, 180, 140}, {370, 290, 206, 158}, {428, 334, 244, 180}, {461, 365, 261, 197}, {523, 415, 295, 223}, {589, 453, 325, 253}, {647, 507, 367, 283}, {721, 563, 397, 313}, {795, 627, 445, 341}, {861, 669, 485, 385}, {932, 714, 512, 406}, {1006, 782, 568, 442}, {1094, 860, 614, 464}, {1174, 914, 664, 514}, {1276, 1000, 718, 538}, {1370, 1062, 754, 596}, {1468, 1128, 808, 628}, {1531, 1193, 871, 661}, {1631, 1267, 911, 701}, {1735, 1373, 985, 745}, {1843, 1455, 1033, 793}, {1955, 1541, 1115, 845}, {2071, 1631, 1171, 901}, {2191, 1725, 1231, 961}, {2306, 1812, 1286, 986}, {2434, 1914, 1354, 1054}, {2566, 1992, 1426, 1096}, {2702, 2102, 1502, 1142}, {2812, 2216, 1582, 1222}, {2956, 2334, 1666, 1276},
}

const qrAlnum = "0123456789ABCDEFGHIJKLMNOPQRSTUVWXYZ $%*+-./:"

// qrCountBits: width of the character count indicator; mode 1 numeric, 2 alphanumeric, 3 byte (the Go Encoding values)
func qrCountBits(version, mode int) int {
	cls := 0
	if version >= 27 {
		cls = 2
	} else if version >= 10 {
		cls = 1
	}
	return [4][3]int{{}, {10, 12, 14}, {9, 11, 13}, {8, 16, 16}}[mode][cls]
}

// qrCapacity: the largest number of characters of one segment of the mode that fits (ISO capacity)
func qrCapacity(version, level, mode int) int {
	bits := qrDataCodewords[version-1][level]*8 - 4 - qrCountBits(version, mode)
	switch mode {
	case 1:
		n := bits / 10 * 3
		if r := bits % 10; r >= 7 {
			n += 2
		} else if r >= 4 {
			n++
		}
		return n
	case 2:
		n := bits / 11 * 2
		if bits%11 >= 6 {
			n++
		}
		return n
	}
	return bits / 8
}

// qrContent: random content of n characters that the explicit mode accepts
func (g *gen) qrContent(mode, n int) string {
	switch mode {
	case 1:
		return g.str(digits, n)
	case 2:
		return g.str(qrAlnum, n)
	}
	return g.bytes(n)
}

func (g *gen) genQR() {
	q := func(s string, level, mode int) { g.emit("qr %s %d %d", hx(s), level, mode) }
	boundary := func(v, l, m int) {
		c := qrCapacity(v, l, m)
		for _, n := range []int{c - 1, c, c + 1} {
			q(g.qrContent(m, n), l, m)
		}
	}
	// A. capacity boundaries: capacity-1, capacity (-> this version), capacity+1 (-> next version / rejected)
	r0 := g.intn(12)
	for v := 1; v <= 40; v++ {
		if g.thorough() || v <= 10 {
			for l := 0; l < 4; l++ {
				for m := 1; m <= 3; m++ {
					boundary(v, l, m)
				}
			}
		} else {
			// quick tier: one (level, mode) pair per large version; the pairs rotate with version and seed
			k := (v + r0) % 12
			boundary(v, k%4, 1+k/4)
			// and the Auto encoder on a full symbol of another level
			l2 := (k + 1) % 4
			m2 := 1 + g.intn(3)
			q(g.qrContent(m2, qrCapacity(v, l2, m2)), l2, 0)
		}
	}
	// B. parameters: empty string, undefined levels and modes
	for l := 0; l < 4; l++ {
		for m := 0; m < 4; m++ {
			q("", l, m)
		}
	}
	for _, l := range []int{0, 1, 2, 3, 4, 5, 128, 255} {
		for _, m := range []int{0, 1, 2, 3, 4, 5, 8, 200, 255} {
			if l < 4 && m < 4 {
				continue
			}
			q("", l, m)
			q("1", l, m)
			q("A1", l, m)
			q("a\xff", l, m)
			q(g.str(digits, 1+g.intn(40)), l, m)
		}
	}
	// C. every byte value: single bytes in every mode, all 256 values in one string, runs of one value
	all := make([]byte, 256)
	for i := range all {
		all[i] = byte(i)
	}
	for b := 0; b < 256; b++ {
		s := string([]byte{byte(b)})
		l := g.intn(4)
		for m := 1; m < 4; m++ {
			q(s, l, m)
		}
		if g.thorough() || g.intn(3) == 0 {
			q(s, l, 0)
		}
		q("A"+s, g.intn(4), 2)
		q("7"+s, g.intn(4), 1)
	}
	for l := 0; l < 4; l++ {
		q(string(all), l, 3)
		q(string(all), l, 0)
		rev := make([]byte, 256)
		for i := range rev {
			rev[i] = all[255-i]
		}
		q(string(rev)+string(all), l, 3)
	}
	// invalid and multi-byte UTF-8: the alphanumeric encoder ranges over runes but counts bytes
	for _, bad := range []string{"\xc3", "\xc3\xa9", "\xe2\x82\xac", "\xe2\x82", "\xf0\x9f\x98\x80", "\xed\xa0\x80", "\xc0\x80",
		"\xef\xbf\xbd", "\xff\xfe", "\x80", "\xf8\x88\x80\x80\x80", "\xef\xbc\xa1", "\xef\xbc\x91"} {
		for _, ctx := range []string{"", "A", "AB", "ABC", "12", "123"} {
			for m := 0; m < 4; m++ {
				l := g.intn(4)
				q(ctx+bad, l, m)
				q(bad+ctx, l, m)
				q(ctx+bad+ctx, l, m)
			}
		}
	}
	// D. numeric candidates: sign / space / non-ASCII digits / other noise at every chunk offset
	noise := []string{"+", "-", " ", "_", ".", "e", "x", "/", ":", "\x00", "\xd9\xa1", "\xef\xbc\x91", "\xb2", "0x", "+-"}
	for n := 1; n <= 7; n++ {
		for pos := 0; pos <= n; pos++ {
			for _, ns := range noise {
				base := g.str(digits, n)
				l := g.intn(4)
				ins := base[:pos] + ns + base[pos:]
				q(ins, l, 1)
				if g.thorough() || g.intn(3) == 0 {
					q(ins, l, 0)
				}
				if pos < n {
					rep := base[:pos] + ns + base[pos+1:]
					q(rep, l, 1)
					if g.thorough() {
						q(rep, l, 0)
					}
				}
			}
		}
	}
	for _, s := range []string{"+12", "-12", "+1", "-0", "+", "-", "++1", "12+", "1+2", "123+45", "123-45", "123+4", "123 45", "+49123456789",
		"000", "00", "0", "007", "0000000", "999", "1000", " 12", "12 ", "1 2"} {
		for m := 0; m < 3; m++ {
			q(s, g.intn(4), m)
		}
	}
	// E. Auto on mixtures and random contents per alphabet in the matching, a non-matching and the Auto mode
	alphabets := []string{digits, qrAlnum, "ABCDEF $%*+-./:", "abcxyz ,", digits + "+-", qrAlnum + "a", "a\u00e4\u00f6\u20ac\U0001F600 1A"}
	randLen := func() int {
		switch x := g.intn(20); {
		case x < 13:
			return g.intn(60)
		case x < 18:
			return 60 + g.intn(440)
		}
		return 500 + g.intn(2600)
	}
	for i := 0; i < g.n(350, 6000); i++ {
		n := randLen()
		var s string
		a := g.intn(len(alphabets) + 1)
		if a == len(alphabets) {
			s = g.bytes(n)
		} else {
			rs := []rune(alphabets[a])
			b := make([]rune, n)
			for k := range b {
				b[k] = rs[g.intn(len(rs))]
			}
			s = string(b)
		}
		// mixtures: a digit prefix / alphanumeric prefix followed by something else
		if g.intn(4) == 0 {
			s = g.str(digits, g.intn(12)) + s
		}
		if g.intn(6) == 0 {
			s = s + g.str(qrAlnum, g.intn(12))
		}
		l := g.intn(4)
		q(s, l, 0)
		q(s, l, g.intn(4))
	}
}
