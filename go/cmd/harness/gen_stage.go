package main

// gen_stage.go — domains of the stage ops (`st.*`, see lean/BV/OpsStage.lean): the internal functions are small enough
// that whole regions of their domains can be enumerated instead of being reached through complete symbols.

import (
	"fmt"
	"strings"
)

func bitsOf(v, n int) string {
	if n == 0 {
		return "-"
	}
	var b strings.Builder
	for i := n - 1; i >= 0; i-- {
		if v>>uint(i)&1 == 1 {
			b.WriteByte('1')
		} else {
			b.WriteByte('0')
		}
	}
	return b.String()
}

func (g *gen) randBits(n int) string {
	if n == 0 {
		return "-"
	}
	var b strings.Builder
	// runs of equal bits of random length, so that long runs (stuffing, penalties) are common
	for b.Len() < n {
		run := 1 + g.intn(1+g.intn(9))
		c := byte('0' + g.intn(2))
		for k := 0; k < run && b.Len() < n; k++ {
			b.WriteByte(c)
		}
	}
	return b.String()
}

func intsArg(v []int) string {
	if len(v) == 0 {
		return "-"
	}
	s := make([]string, len(v))
	for i, x := range v {
		s[i] = fmt.Sprint(x)
	}
	return strings.Join(s, ",")
}

// ---------------------------------------------------------------- QR

func (g *gen) stageQR() {
	g.stageQRSmallest()
	g.stageQRRest()
}

// stageSizes: the size-choosing functions (C13)
func (g *gen) stageSizes() {
	g.stageQRSmallest()
	g.stagePDFdims()
}

func (g *gen) stageQRSmallest() {
	modes := []int{1, 2, 4, 8}
	// findSmallestVersionInfo: every capacity boundary of every version x level x mode, +-2 bits; all of 0..400
	for ecl := 0; ecl < 4; ecl++ {
		for _, m := range modes {
			mi := map[int]int{1: 1, 2: 2, 4: 3, 8: 3}[m]
			for v := 1; v <= 40; v++ {
				cap := qrDataCodewords[v-1][ecl]*8 - 4 - qrCountBits(v, mi)
				if m == 8 {
					cap = qrDataCodewords[v-1][ecl]*8 - 4 - map[bool]int{true: 8, false: 10}[v < 10]
					if v >= 27 {
						cap = qrDataCodewords[v-1][ecl]*8 - 4 - 12
					}
				}
				for d := -2; d <= 2; d++ {
					if cap+d >= 0 {
						g.emit("st.qr.smallest %d %d %d", ecl, m, cap+d)
					}
				}
			}
			top := 120
			if g.thorough() {
				top = 24000
			}
			for n := 0; n <= top; n++ {
				g.emit("st.qr.smallest %d %d %d", ecl, m, n)
			}
			for i := 0; i < g.n(40, 0); i++ {
				g.emit("st.qr.smallest %d %d %d", ecl, m, g.intn(24000))
			}
		}
	}
	g.emit("st.qr.smallest 4 4 100")
	g.emit("st.qr.smallest 0 4 30000")
}

func (g *gen) stageQRRest() {
	// alignment pattern centres of all 40 versions
	for v := 1; v <= 40; v++ {
		g.emit("st.qr.align %d", v)
	}
	// bit streams of the four encoders: every length 0..60, capacity boundaries of some versions
	for enc := 0; enc <= 3; enc++ {
		mode := enc
		if enc == 0 {
			mode = 1 + g.intn(3)
		}
		for n := 0; n <= g.n(40, 120); n++ {
			g.emit("st.qr.stream %s %d %d", hx(g.qrContent(mode, n)), g.intn(4), enc)
		}
		for i := 0; i < g.n(12, 160); i++ {
			v, lvl := 1+g.intn(40), g.intn(4)
			c := qrCapacity(v, lvl, mode)
			g.emit("st.qr.stream %s %d %d", hx(g.qrContent(mode, c-g.intn(2))), lvl, enc)
			g.emit("st.qr.stream %s %d %d", hx(g.qrContent(mode, c+1)), lvl, enc)
		}
	}
	g.emit("st.qr.stream %s 0 1", hx("12a"))
	g.emit("st.qr.stream %s 0 2", hx("abc"))
	g.emit("st.qr.stream %s 1 3", hx("\xff\xfe"))
	// blocks: every version x level once with random codewords (quick: a third of them)
	for v := 1; v <= 40; v++ {
		for lvl := 0; lvl < 4; lvl++ {
			if !g.thorough() && g.intn(3) != 0 && v > 3 {
				continue
			}
			g.emit("st.qr.blocks %s %d %d", hx(g.bytes(qrDataCodewords[v-1][lvl])), v, lvl)
		}
	}
	g.emit("st.qr.blocks %s 1 0", hx(g.bytes(5))) // short input: the closed channel yields zero bytes
	// penalties: all 2x2..3x3 matrices (thorough: 4x4), random matrices with long runs and finder-like patterns
	maxAll := 3
	if g.thorough() {
		maxAll = 4
	}
	for dim := 1; dim <= maxAll; dim++ {
		for v := 0; v < 1<<uint(dim*dim); v++ {
			g.emit("st.qr.penalty %d %s", dim, bitsOf(v, dim*dim))
		}
	}
	for i := 0; i < g.n(150, 3000); i++ {
		dim := 5 + g.intn(30)
		if g.intn(6) == 0 {
			dim = 21 + 4*g.intn(6)
		}
		b := []byte(g.randBits(dim * dim))
		// plant the 1:1:3:1:1 pattern with its light run, horizontally or vertically
		if dim >= 11 && g.intn(2) == 0 {
			pat := "10111010000"
			if g.intn(2) == 0 {
				pat = "00001011101"
			}
			x, y := g.intn(dim-10), g.intn(dim)
			for k := 0; k < 11; k++ {
				if g.intn(2) == 0 {
					b[(y)*dim+x+k] = pat[k]
				} else {
					b[(x+k)*dim+y] = pat[k]
				}
			}
		}
		g.emit("st.qr.penalty %d %s", dim, string(b))
	}
	for _, dim := range []int{7, 21} {
		g.emit("st.qr.penalty %d %s", dim, strings.Repeat("0", dim*dim))
		g.emit("st.qr.penalty %d %s", dim, strings.Repeat("1", dim*dim))
		g.emit("st.qr.penalty %d %s", dim, strings.Repeat("01", dim*dim/2)+"0")
	}
}

// ---------------------------------------------------------------- DataMatrix

// check codewords per size, in the order of dmCaps
var dmEcc = []int{5, 7, 10, 12, 14, 18, 20, 24, 28, 36, 42, 48, 56, 68, 84, 112, 144, 192, 224, 272, 336, 408, 496, 620}

func (g *gen) stageDM() {
	// encodeText: every single byte, every pair of "interesting" bytes, random strings
	for b := 0; b < 256; b++ {
		g.emit("st.dm.text %s", hx(string([]byte{byte(b)})))
		g.emit("st.dm.text %s", hx(string([]byte{'7', byte(b)})))
		g.emit("st.dm.text %s", hx(string([]byte{byte(b), '3', '4'})))
	}
	g.emit("st.dm.text -")
	for i := 0; i < g.n(100, 2000); i++ {
		g.emit("st.dm.text %s", hx(g.dmContent(g.intn(5), g.intn(40))))
	}
	// addPadding: every data length 0..toCount+1 for the small sizes, boundary lengths for the large ones
	for _, c := range dmCaps {
		lens := []int{0, 1, c - 2, c - 1, c, c + 1}
		if c <= 62 || g.thorough() {
			lens = nil
			for n := 0; n <= c+1; n++ {
				lens = append(lens, n)
			}
		} else {
			for k := 0; k < 6; k++ {
				lens = append(lens, g.intn(c))
			}
		}
		for _, n := range lens {
			if n >= 0 {
				g.emit("st.dm.pad %s %d", hx(g.bytes(n)), c)
			}
		}
	}
	// placement (SetValues): for every size, data patterns whose bit p (= 8 * codeword + bit) carries bit k of p — the
	// returned matrices together determine which data bit every module of the mapping matrix received
	for i, c := range dmCaps {
		total := c + dmEcc[i]
		for k := 0; k < 15; k++ {
			if 1<<uint(k) > total*8 {
				break
			}
			d := make([]byte, total)
			for p := 0; p < total*8; p++ {
				if p>>uint(k)&1 == 1 {
					d[p/8] |= 0x80 >> uint(p%8)
				}
			}
			g.emit("st.dm.place %s %d", hx(string(d)), i)
		}
		g.emit("st.dm.place %s %d", hx(strings.Repeat("\xff", total)), i)
		g.emit("st.dm.place %s %d", hx(g.bytes(total)), i)
		g.emit("st.dm.place %s %d", hx(g.bytes(total-1)), i) // one codeword short: index out of range
	}
	// calcECC: every size with random full data
	for i, c := range dmCaps {
		reps := g.n(2, 12)
		for k := 0; k < reps; k++ {
			g.emit("st.dm.ecc %s %d", hx(g.bytes(c)), i)
		}
		g.emit("st.dm.ecc %s %d", hx(strings.Repeat("\x00", c)), i)
		g.emit("st.dm.ecc %s %d", hx(strings.Repeat("\xff", c)), i)
	}
}

// ---------------------------------------------------------------- Aztec

func (g *gen) stageAztec() {
	// stuffBits: every bit string up to 11 (thorough 14) bits for the four word sizes, long random strings
	top := 11
	if g.thorough() {
		top = 14
	}
	for _, ws := range []int{6, 8, 10, 12} {
		for n := 0; n <= top; n++ {
			for v := 0; v < 1<<uint(n); v++ {
				g.emit("st.az.stuff %s %d", bitsOf(v, n), ws)
			}
		}
		for i := 0; i < g.n(60, 1500); i++ {
			g.emit("st.az.stuff %s %d", g.randBits(1+g.intn(400)), ws)
		}
		// all-equal inputs of every length around multiples of the word size
		for n := 1; n <= 5*ws+2; n++ {
			g.emit("st.az.stuff %s %d", strings.Repeat("1", n), ws)
			g.emit("st.az.stuff %s %d", strings.Repeat("0", n), ws)
		}
	}
	// generateModeMessage: every (layers, words) of the compact range, the full range on a grid plus boundaries
	for layers := 1; layers <= 4; layers++ {
		for w := 1; w <= 64; w++ {
			g.emit("st.az.mode 1 %d %d", layers, w)
		}
	}
	for layers := 1; layers <= 32; layers++ {
		for _, w := range []int{1, 2, 63, 64, 65, 1023, 1024, 1025, 2047, 2048} {
			g.emit("st.az.mode 0 %d %d", layers, w)
		}
		for i := 0; i < g.n(6, 2048); i++ {
			w := 1 + g.intn(2048)
			if g.thorough() {
				w = i + 1
			}
			g.emit("st.az.mode 0 %d %d", layers, w)
		}
	}
	// generateCheckWords: message of k words in a symbol of t words, every word size
	for _, ws := range []int{4, 6, 8, 10, 12} {
		for i := 0; i < g.n(25, 400); i++ {
			maxT := (1 << uint(ws)) - 1
			if maxT > 300 && !g.thorough() {
				maxT = 300
			}
			t := 2 + g.intn(maxT-1)
			k := 1 + g.intn(t-1)
			g.emit("st.az.check %s %d %d", g.randBits(k*ws), t*ws+g.intn(ws), ws)
		}
	}
	// highlevelEncode: every single byte, all pairs over a class alphabet, mixed text
	for b := 0; b < 256; b++ {
		g.emit("st.az.hl %s", hx(string([]byte{byte(b)})))
	}
	alpha := "Aa1 .,\r\n:@\x1b\x80!"
	for _, x := range []byte(alpha) {
		for _, y := range []byte(alpha) {
			g.emit("st.az.hl %s", hx(string([]byte{x, y})))
			if g.thorough() {
				for _, z := range []byte(alpha) {
					g.emit("st.az.hl %s", hx(string([]byte{x, y, z})))
				}
			}
		}
	}
	g.emit("st.az.hl -")
	for i := 0; i < g.n(150, 4000); i++ {
		g.emit("st.az.hl %s", hx(g.azText(1+g.intn(12))))
	}
	for _, r := range []int{30, 31, 32, 33, 62, 63, 64, 2077, 2078, 2079, 2080} {
		if r > 100 && !g.thorough() && r != 2078 && r != 2079 {
			continue // (quick keeps the two lengths around the forced end of a binary shift at 2047+31 bytes)
		}
		g.emit("st.az.hl %s", hx(g.str(azClasses[5], r)))
		g.emit("st.az.hl %s", hx("a"+g.str(azClasses[5], r)+"1"))
	}
}

// ---------------------------------------------------------------- PDF417

func (g *gen) stagePDF() {
	g.stagePDFdims()
	g.stagePDFec()
	g.stagePDFhl()
}

func (g *gen) stagePDFdims() {
	// calcDimensions: every (data words, check words) pair that can occur (and a margin beyond)
	for lvl := 0; lvl <= 8; lvl++ {
		ecc := 2 << uint(lvl)
		for d := 1; d <= 930-ecc && d <= 928; d++ {
			if !g.thorough() && d > 60 && (d+lvl)%3 != 0 {
				continue
			}
			g.emit("st.pdf.dims %d %d", d, ecc)
		}
	}
	for _, d := range []int{0, 926, 927, 928, 929, 1000, 2000} {
		g.emit("st.pdf.dims %d 2", d)
		g.emit("st.pdf.dims %d 512", d)
	}
	// getPadding: all totals x all column counts
	for c := 1; c <= 30; c++ {
		for d := 1; d <= g.n(70, 928); d++ {
			g.emit("st.pdf.pad %d %d %d", d, 2<<uint((d+c)%9), c)
		}
	}
}

// stagePDFec: the check-word functions whose output carries the requested strength (C12)
func (g *gen) stagePDFec() {
	for layers := 1; layers <= 4; layers++ {
		for w := 1; w <= 64; w += 1 + g.intn(3) {
			g.emit("st.az.mode 1 %d %d", layers, w)
		}
	}
	// Compute: random data for every level, single words, the extreme values
	for lvl := 0; lvl <= 8; lvl++ {
		for i := 0; i < g.n(8, 120); i++ {
			n := 1 + g.intn(40)
			if g.intn(4) == 0 {
				n = 1 + g.intn(900)
			}
			w := make([]int, n)
			for k := range w {
				w[k] = g.intn(929)
			}
			w[0] = n
			g.emit("st.pdf.ec %d %s", lvl, intsArg(w))
		}
		g.emit("st.pdf.ec %d 1", lvl)
		g.emit("st.pdf.ec %d 2,0", lvl)
		g.emit("st.pdf.ec %d 3,928,928", lvl)
		g.emit("st.pdf.ec %d -", lvl)
	}
	g.emit("st.pdf.ec 9 1")
}

func (g *gen) stagePDFhl() {
	// highlevelEncode: single bytes, pairs of class representatives, digit runs around 13 / 44 / 45, byte runs around 6
	for b := 0; b < 256; b++ {
		g.emit("st.pdf.hl %s", hx(string([]byte{byte(b)})))
	}
	reps := "Aa1 ;,\t\n\r\"$\x80\xff~{"
	for _, x := range []byte(reps) {
		for _, y := range []byte(reps) {
			g.emit("st.pdf.hl %s", hx(string([]byte{x, y})))
			for _, z := range []byte(reps) {
				if g.thorough() || g.intn(6) == 0 {
					g.emit("st.pdf.hl %s", hx(string([]byte{x, y, z, x})))
				}
			}
		}
	}
	for n := 0; n <= g.n(100, 300); n++ {
		g.emit("st.pdf.hl %s", hx(g.str(digits, n)))
		g.emit("st.pdf.hl %s", hx("A"+g.str(digits, n)+"b"))
		if n <= 40 {
			g.emit("st.pdf.hl %s", hx(g.str("\x80\x81\xfe", n)))
			g.emit("st.pdf.hl %s", hx("ab"+g.str("\x80\x81\xfe", n)+"12"))
		}
	}
	for i := 0; i < g.n(200, 5000); i++ {
		g.emit("st.pdf.hl %s", hx(g.pdfBytes(1+g.intn(60), g.intn(6))))
	}
	g.emit("st.pdf.hl -")
}

// ---------------------------------------------------------------- 1D

func (g *gen) stageEAN() {
	for _, n := range []int{7, 12} {
		for d := 0; d < 10; d++ {
			g.emit("st.ean.chk %s", hx(strings.Repeat(string(rune('0'+d)), n)))
		}
		for pos := 0; pos < n; pos++ {
			for d := 0; d < 10; d++ {
				b := []byte(strings.Repeat("0", n))
				b[pos] = byte('0' + d)
				g.emit("st.ean.chk %s", hx(string(b)))
				b = []byte(g.str(digits, n))
				b[pos] = byte('0' + d)
				g.emit("st.ean.chk %s", hx(string(b)))
			}
		}
		for i := 0; i < g.n(300, 20000); i++ {
			g.emit("st.ean.chk %s", hx(g.str(digits, n)))
		}
	}
	// other lengths and non-digits: the function itself does not check the length
	for n := 0; n <= 14; n++ {
		g.emit("st.ean.chk %s", hx(g.str(digits, n)))
	}
	for _, s := range []string{"12345a7", "123456\xc3\xa9", "-123456", "١٢٣٤٥٦٧", "1234567 ", "/234567", ":234567"} {
		g.emit("st.ean.chk %s", hx(s))
	}
	if g.thorough() {
		// every 7-digit body whose digits are 0 or 9 (all weighted-sum extremes), every body with at most two non-zero digits
		for v := 0; v < 128; v++ {
			b := make([]byte, 7)
			for k := range b {
				b[k] = '0' + byte(9*((v>>uint(k))&1))
			}
			g.emit("st.ean.chk %s", hx(string(b)))
		}
	}
}

func (g *gen) stageC39C93() {
	alpha39 := "0123456789ABCDEFGHIJKLMNOPQRSTUVWXYZ-. $/+%"
	for _, c := range alpha39 {
		g.emit("st.c39.chk %s", hx(string(c)))
		g.emit("st.c39.chk %s", hx(strings.Repeat(string(c), 43)))
		g.emit("st.c39.chk %s", hx(strings.Repeat(string(c), 44)))
		for _, w := range []int{20, 15} {
			g.emit("st.c93.chk %s %d", hx(string(c)), w)
			g.emit("st.c93.chk %s %d", hx(strings.Repeat(string(c), w)), w)
			g.emit("st.c93.chk %s %d", hx(strings.Repeat(string(c), w+1)), w)
			g.emit("st.c93.chk %s %d", hx(strings.Repeat(string(c), 2*w+1)), w)
		}
	}
	for c := 0; c < 256; c++ {
		for _, op := range []string{"st.c39.prep", "st.c93.prep"} {
			g.emit("%s %s", op, hx(string(rune(c))))
			g.emit("%s %s", op, hx(string([]byte{byte(c)})))
			g.emit("%s %s", op, hx("A"+string(rune(c))+"z"))
		}
	}
	g.emit("st.c39.prep -")
	g.emit("st.c93.prep -")
	g.emit("st.c39.chk -")
	g.emit("st.c93.chk - 20")
	g.emit("st.c93.chk - 15")
	for _, s := range []string{"a", "AB*", "\xc3\xb1", "A\xf1B", "*"} {
		g.emit("st.c39.chk %s", hx(s))
		g.emit("st.c93.chk %s 20", hx(s))
	}
	for _, r := range []string{"ñ", "ò", "ó", "ô"} {
		g.emit("st.c93.chk %s 20", hx("A"+r+"Z"))
		g.emit("st.c93.chk %s 15", hx(r))
	}
	for i := 0; i < g.n(300, 6000); i++ {
		s := g.str(alpha39, 1+g.intn(50))
		g.emit("st.c39.chk %s", hx(s))
		g.emit("st.c93.chk %s %d", hx(s), []int{20, 15}[g.intn(2)])
	}
}

func (g *gen) stageC128() {
	a := c128Alphabet()
	for _, x := range a {
		g.emit("st.c128.idx %s", hx(x))
		for _, y := range a {
			if g.thorough() || g.intn(8) == 0 {
				g.emit("st.c128.idx %s", hx(x+y))
			}
		}
	}
	g.emit("st.c128.idx -")
	for i := 0; i < g.n(400, 10000); i++ {
		var b strings.Builder
		for k := 0; k < 1+g.intn(12); k++ {
			switch g.intn(6) {
			case 0, 1:
				b.WriteString(g.str(digits, 1+g.intn(7)))
			case 2:
				b.WriteString(a[g.intn(32)]) // control characters: code set A
			case 3:
				b.WriteString(a[96+g.intn(32)]) // lower case: code set B
			case 4:
				b.WriteString(a[128+g.intn(4)]) // FNC1-4
			default:
				b.WriteString(a[32+g.intn(64)])
			}
		}
		g.emit("st.c128.idx %s", hx(b.String()))
	}
	for _, s := range []string{"\xc3\xa9", "A\x80", "12õ", "\xff"} {
		g.emit("st.c128.idx %s", hx(s))
	}
}
