package main

// run.go — executes op lines against the real packages from /repo and prints canonical result lines.

import (
	"bufio"
	"encoding/hex"
	"fmt"
	"image/color"
	"io"
	"os"
	"reflect"
	"runtime"
	"strconv"
	"strings"
	"sync"
	"time"

	"github.com/boombuler/barcode"
	"github.com/boombuler/barcode/aztec"
	"github.com/boombuler/barcode/codabar"
	"github.com/boombuler/barcode/code128"
	"github.com/boombuler/barcode/code39"
	"github.com/boombuler/barcode/code93"
	"github.com/boombuler/barcode/datamatrix"
	"github.com/boombuler/barcode/ean"
	"github.com/boombuler/barcode/pdf417"
	"github.com/boombuler/barcode/qr"
	"github.com/boombuler/barcode/twooffive"
	"github.com/boombuler/barcode/utils"
)

func unhex(s string) []byte {
	if s == "-" {
		return nil
	}
	b, err := hex.DecodeString(s)
	if err != nil {
		panic("bad hex in op: " + s)
	}
	return b
}

func hexField(b []byte) string {
	if len(b) == 0 {
		return "-"
	}
	return hex.EncodeToString(b)
}

// colName is the canonical, invertible spelling of a colour: dynamic type and raw fields (hex).
func colName(c color.Color) string {
	switch v := c.(type) {
	case nil:
		return "nil"
	case color.Gray:
		return fmt.Sprintf("Gray:%02x", v.Y)
	case color.Gray16:
		return fmt.Sprintf("Gray16:%04x", v.Y)
	case color.RGBA:
		return fmt.Sprintf("RGBA:%02x,%02x,%02x,%02x", v.R, v.G, v.B, v.A)
	case color.NRGBA:
		return fmt.Sprintf("NRGBA:%02x,%02x,%02x,%02x", v.R, v.G, v.B, v.A)
	case color.RGBA64:
		return fmt.Sprintf("RGBA64:%04x,%04x,%04x,%04x", v.R, v.G, v.B, v.A)
	case color.NRGBA64:
		return fmt.Sprintf("NRGBA64:%04x,%04x,%04x,%04x", v.R, v.G, v.B, v.A)
	case color.CMYK:
		return fmt.Sprintf("CMYK:%02x,%02x,%02x,%02x", v.C, v.M, v.Y, v.K)
	case color.Alpha:
		return fmt.Sprintf("Alpha:%02x", v.A)
	case color.Alpha16:
		return fmt.Sprintf("Alpha16:%04x", v.A)
	}
	r, g, b, a := c.RGBA()
	t := fmt.Sprintf("%T", c)
	if i := strings.LastIndex(t, "."); i >= 0 {
		t = t[i+1:]
	}
	return fmt.Sprintf("%s/%04x,%04x,%04x,%04x", t, r, g, b, a)
}

var models = []struct {
	name string
	m    color.Model
}{
	{"RGBAModel", color.RGBAModel}, {"RGBA64Model", color.RGBA64Model}, {"NRGBAModel", color.NRGBAModel},
	{"NRGBA64Model", color.NRGBA64Model}, {"AlphaModel", color.AlphaModel}, {"Alpha16Model", color.Alpha16Model},
	{"GrayModel", color.GrayModel}, {"Gray16Model", color.Gray16Model}, {"CMYKModel", color.CMYKModel}, {"YCbCrModel", color.YCbCrModel},
}

func modelName(m color.Model) string {
	for _, x := range models {
		if x.m == m {
			return x.name
		}
	}
	return "other"
}

func modelByName(n string) color.Model {
	for _, x := range models {
		if x.name == n {
			return x.m
		}
	}
	panic("unknown model " + n)
}

// parseColour is the inverse of colName.
func parseColour(s string) color.Color {
	i := strings.Index(s, ":")
	if i < 0 {
		panic("bad colour " + s)
	}
	t := s[:i]
	var v [4]uint32
	for k, p := range strings.Split(s[i+1:], ",") {
		x, err := strconv.ParseUint(p, 16, 32)
		if err != nil || k > 3 {
			panic("bad colour " + s)
		}
		v[k] = uint32(x)
	}
	switch t {
	case "Gray":
		return color.Gray{uint8(v[0])}
	case "Gray16":
		return color.Gray16{uint16(v[0])}
	case "RGBA":
		return color.RGBA{uint8(v[0]), uint8(v[1]), uint8(v[2]), uint8(v[3])}
	case "NRGBA":
		return color.NRGBA{uint8(v[0]), uint8(v[1]), uint8(v[2]), uint8(v[3])}
	case "RGBA64":
		return color.RGBA64{uint16(v[0]), uint16(v[1]), uint16(v[2]), uint16(v[3])}
	case "NRGBA64":
		return color.NRGBA64{uint16(v[0]), uint16(v[1]), uint16(v[2]), uint16(v[3])}
	case "CMYK":
		return color.CMYK{uint8(v[0]), uint8(v[1]), uint8(v[2]), uint8(v[3])}
	case "Alpha":
		return color.Alpha{uint8(v[0])}
	case "Alpha16":
		return color.Alpha16{uint16(v[0])}
	}
	panic("unsupported colour type " + t)
}

func parseScheme(tok string) barcode.ColorScheme {
	p := strings.Split(tok[1:], "|")
	return barcode.ColorScheme{Model: modelByName(p[0]), Background: parseColour(p[1]), Foreground: parseColour(p[2])}
}

func viewLine(bc barcode.Barcode) string {
	b := bc.Bounds()
	if b.Min.X != 0 || b.Min.Y != 0 {
		return fmt.Sprintf("bad bounds-min=%d,%d", b.Min.X, b.Min.Y)
	}
	w, h := b.Max.X, b.Max.Y
	var pal []string
	px := make([]byte, 0, w*h)
	for y := 0; y < h; y++ {
		for x := 0; x < w; x++ {
			c := colName(bc.At(x, y))
			idx := -1
			for i, p := range pal {
				if p == c {
					idx = i
					break
				}
			}
			if idx < 0 {
				pal = append(pal, c)
				idx = len(pal) - 1
			}
			if idx < 10 {
				px = append(px, byte('0'+idx))
			} else {
				px = append(px, '#')
			}
		}
	}
	cs := "-"
	if ics, ok := bc.(barcode.BarcodeIntCS); ok {
		cs = strconv.Itoa(ics.CheckSum())
	}
	sch := "-"
	if bcol, ok := bc.(barcode.BarcodeColor); ok {
		s := bcol.ColorScheme()
		sch = colName(s.Background) + "|" + colName(s.Foreground)
	}
	md := bc.Metadata()
	return fmt.Sprintf("ok kind=%s dims=%d w=%d h=%d pal=%s px=%s content=%s cs=%s cm=%s scheme=%s",
		hexField([]byte(md.CodeKind)), md.Dimensions, w, h, strings.Join(pal, ";"), px,
		hexField([]byte(bc.Content())), cs, modelName(bc.ColorModel()), sch)
}

func isNilBarcode(bc barcode.Barcode) bool {
	if bc == nil {
		return true
	}
	// typed nil pointers inside the interface
	v := reflect.ValueOf(bc)
	return v.Kind() == reflect.Ptr && v.IsNil()
}

func atoi(s string) int {
	v, err := strconv.Atoi(s)
	if err != nil {
		panic("bad int in op: " + s)
	}
	return v
}

// encodeOp runs one encoder op (without scale prefix); returns barcode or error.
func encodeOp(f []string) (barcode.Barcode, error, bool) {
	var sch *barcode.ColorScheme
	if n := len(f); n > 0 && strings.HasPrefix(f[n-1], "@") {
		s := parseScheme(f[n-1])
		sch = &s
		f = f[:n-1]
	}
	switch f[0] {
	case "raw1d":
		// raw1d <kind hex> <content hex> <bits> <checksum|->: the four public constructors of utils/base1dcode.go
		if len(f) != 5 {
			panic("bad arity raw1d")
		}
		bars := new(utils.BitList)
		for _, c := range f[3] {
			bars.AddBit(c == '1')
		}
		kind, content := string(unhex(f[1])), string(unhex(f[2]))
		switch {
		case f[4] == "-" && sch == nil:
			return utils.New1DCode(kind, content, bars), nil, true
		case f[4] == "-":
			return utils.New1DCodeWithColor(kind, content, bars, *sch), nil, true
		case sch == nil:
			return utils.New1DCodeIntCheckSum(kind, content, bars, atoi(f[4])), nil, true
		default:
			return utils.New1DCodeIntCheckSumWithColor(kind, content, bars, atoi(f[4]), *sch), nil, true
		}
	case "ean":
		if sch != nil {
			bc, err := ean.EncodeWithColor(string(unhex(f[1])), *sch)
			return wrapCS(bc, err)
		}
		bc, err := ean.Encode(string(unhex(f[1])))
		return wrapCS(bc, err)
	case "c39":
		if sch != nil {
			bc, err := code39.EncodeWithColor(string(unhex(f[1])), f[2] == "1", f[3] == "1", *sch)
			return wrapCS(bc, err)
		}
		bc, err := code39.Encode(string(unhex(f[1])), f[2] == "1", f[3] == "1")
		return wrapCS(bc, err)
	case "c93":
		if sch != nil {
			bc, err := code93.EncodeWithColor(string(unhex(f[1])), f[2] == "1", f[3] == "1", *sch)
			return bc, err, true
		}
		bc, err := code93.Encode(string(unhex(f[1])), f[2] == "1", f[3] == "1")
		return bc, err, true
	case "c128":
		if sch != nil {
			bc, err := code128.EncodeWithColor(string(unhex(f[1])), *sch)
			return wrapCS(bc, err)
		}
		bc, err := code128.Encode(string(unhex(f[1])))
		return wrapCS(bc, err)
	case "c128nc":
		if sch != nil {
			bc, err := code128.EncodeWithoutChecksumWithColor(string(unhex(f[1])), *sch)
			return bc, err, true
		}
		bc, err := code128.EncodeWithoutChecksum(string(unhex(f[1])))
		return bc, err, true
	case "codabar":
		if sch != nil {
			bc, err := codabar.EncodeWithColor(string(unhex(f[1])), *sch)
			return bc, err, true
		}
		bc, err := codabar.Encode(string(unhex(f[1])))
		return bc, err, true
	case "tof":
		if sch != nil {
			bc, err := twooffive.EncodeWithColor(string(unhex(f[1])), f[2] == "1", *sch)
			return bc, err, true
		}
		bc, err := twooffive.Encode(string(unhex(f[1])), f[2] == "1")
		return bc, err, true
	case "qr":
		if sch != nil {
			bc, err := qr.EncodeWithColor(string(unhex(f[1])), qr.ErrorCorrectionLevel(atoi(f[2])), qr.Encoding(atoi(f[3])), *sch)
			return bc, err, true
		}
		bc, err := qr.Encode(string(unhex(f[1])), qr.ErrorCorrectionLevel(atoi(f[2])), qr.Encoding(atoi(f[3])))
		return bc, err, true
	case "dm":
		if sch != nil {
			bc, err := datamatrix.EncodeWithColor(string(unhex(f[1])), *sch)
			return bc, err, true
		}
		bc, err := datamatrix.Encode(string(unhex(f[1])))
		return bc, err, true
	case "aztec":
		if sch != nil {
			bc, err := aztec.EncodeWithColor(unhex(f[1]), atoi(f[2]), atoi(f[3]), *sch)
			return bc, err, true
		}
		bc, err := aztec.Encode(unhex(f[1]), atoi(f[2]), atoi(f[3]))
		return bc, err, true
	case "pdf":
		if sch != nil {
			bc, err := pdf417.EncodeWithColor(string(unhex(f[1])), byte(atoi(f[2])), *sch)
			return bc, err, true
		}
		bc, err := pdf417.Encode(string(unhex(f[1])), byte(atoi(f[2])))
		return bc, err, true
	}
	return nil, nil, false
}

func wrapCS(bc barcode.BarcodeIntCS, err error) (barcode.Barcode, error, bool) {
	if bc == nil {
		return nil, err, true
	}
	return bc, err, true
}

// barcodeOp handles nested `scale W H FILL <inner op>` prefixes.
func barcodeOp(f []string) (barcode.Barcode, error, bool) {
	if f[0] == "scale" {
		inner, err, ok := barcodeOp(f[4:])
		if !ok {
			return nil, nil, false
		}
		if err != nil || isNilBarcode(inner) {
			return inner, err, true
		}
		w, h := atoi(f[1]), atoi(f[2])
		if f[3] == "-" {
			bc, err := barcode.Scale(inner, w, h)
			return bc, err, true
		}
		bc, err := barcode.ScaleWithFill(inner, w, h, parseColour(f[3]))
		return bc, err, true
	}
	return encodeOp(f)
}

func classify(bc barcode.Barcode, err error) string {
	nilBC := isNilBarcode(bc)
	switch {
	case nilBC && err != nil:
		return "rej"
	case !nilBC && err == nil:
		return viewLine(bc)
	case nilBC && err == nil:
		return "bad nil-nil"
	default:
		return "bad both"
	}
}

// execOp runs one op line under recover; the boolean is false for unknown ops.
func execOp(line string) (res string) {
	f := strings.Fields(line)
	if len(f) == 0 {
		return "bad-op"
	}
	defer func() {
		if r := recover(); r != nil {
			res = "panic"
			// a malformed op line (generator bug) is not a panic of the library
			if s, ok := r.(string); ok && (strings.HasPrefix(s, "bad ") || strings.HasPrefix(s, "unknown model") || strings.HasPrefix(s, "unsupported colour")) {
				res = "bad-op " + s
			}
		}
	}()
	if f[0] == "mut" && len(f) == 5 && f[1] == "aztec" {
		return mutCheck(f[1:])
	}
	if bc, err, ok := barcodeOp(f); ok {
		return classify(bc, err)
	}
	if strings.HasPrefix(f[0], "st.") {
		return stageOp(f)
	}
	if out, ok := miscOp(f); ok {
		return out
	}
	return "bad-op"
}

// runOps: stdin ops -> stdout results; each op under a wall-clock limit.
func runOps(in io.Reader, out io.Writer) {
	sc := bufio.NewScanner(in)
	sc.Buffer(make([]byte, 1<<24), 1<<24)
	w := bufio.NewWriterSize(out, 1<<20)
	defer w.Flush()
	limit := 25 * time.Second
	for sc.Scan() {
		line := sc.Text()
		ch := make(chan string, 1)
		go func() { ch <- execOp(line) }()
		select {
		case r := <-ch:
			fmt.Fprintln(w, r)
		case <-time.After(limit):
			fmt.Fprintln(w, "timeout")
			w.Flush()
			// the stuck goroutine cannot be cancelled; finish the remaining ops in a fresh process
			rest := []string{}
			for sc.Scan() {
				rest = append(rest, sc.Text())
			}
			w.Flush()
			rerun(rest, out)
			return
		}
		w.Flush()
	}
}

func rerun(lines []string, out io.Writer) {
	if len(lines) == 0 {
		return
	}
	// simplest robust continuation: mark the remainder as not executed
	for range lines {
		fmt.Fprintln(out, "skipped-after-timeout")
	}
	_ = os.Stderr
}

// mutCheck: `mut aztec <hex> <pct> <layers>` — the encoder gets a private buffer; afterwards the buffer is
// overwritten and every accessor / pixel is read again (C15: no aliasing, input not modified).
func mutCheck(f []string) string {
	// the payload is a window into a larger buffer with sentinel bytes before and behind it (spare capacity included)
	orig := unhex(f[1])
	whole := make([]byte, 16+len(orig)+4096)
	for i := range whole {
		whole[i] = 0xA5
	}
	copy(whole[16:], orig)
	buf := whole[16 : 16+len(orig)]
	bc, err := aztec.Encode(buf, atoi(f[2]), atoi(f[3]))
	input := 1
	if string(buf) != string(orig) {
		input = 0
	}
	for i, x := range whole {
		if (i < 16 || i >= 16+len(orig)) && x != 0xA5 {
			input = 0
		}
	}
	line1 := classify(bc, err)
	if !strings.HasPrefix(line1, "ok") {
		return line1
	}
	for i := range buf {
		buf[i] ^= 0xFF
	}
	line2 := classify(bc, err)
	stable := 1
	if line1 != line2 {
		stable = 0
	}
	return fmt.Sprintf("%s stable=%d input=%d", line1, stable, input)
}

// runConcurrent: all ops are started from n goroutines at once (the very first library calls of this process),
// results are printed in op order, followed by a `#conc` line with the number of goroutines still alive.
func runConcurrent(in io.Reader, out io.Writer, n int) {
	sc := bufio.NewScanner(in)
	sc.Buffer(make([]byte, 1<<24), 1<<24)
	var ops []string
	for sc.Scan() {
		ops = append(ops, sc.Text())
	}
	base := runtime.NumGoroutine()
	results := make([]string, len(ops))
	// lines `warm <op>` are executed first, one after the other (they bring shared caches into a chosen state); the
	// remaining ops are then started concurrently
	var conc []int
	for j, o := range ops {
		if strings.HasPrefix(o, "warm ") {
			results[j] = execOp(strings.TrimPrefix(o, "warm "))
		} else {
			conc = append(conc, j)
		}
	}
	var wg sync.WaitGroup
	start := make(chan struct{})
	for g := 0; g < n; g++ {
		wg.Add(1)
		go func(g int) {
			defer wg.Done()
			<-start
			for k := g; k < len(conc); k += n {
				results[conc[k]] = execOp(ops[conc[k]])
			}
		}(g)
	}
	close(start)
	done := make(chan struct{})
	go func() { wg.Wait(); close(done) }()
	select {
	case <-done:
	case <-time.After(240 * time.Second):
		fmt.Fprintln(out, "#conc deadlock-or-timeout")
		return
	}
	leaked := 0
	for i := 0; i < 100; i++ {
		leaked = runtime.NumGoroutine() - base
		if leaked <= 0 {
			break
		}
		time.Sleep(20 * time.Millisecond)
	}
	w := bufio.NewWriterSize(out, 1<<20)
	for _, r := range results {
		fmt.Fprintln(w, r)
	}
	fmt.Fprintf(w, "#conc leaked=%d goroutines=%d\n", leaked, n)
	w.Flush()
}
