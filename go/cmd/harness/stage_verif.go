//go:build verif

package main

// stage_verif.go — stage ops `st.<pkg>.<fn>`: internal functions of /repo, reached through the `export_verif.go`
// hooks (build tag `verif`). The model side is lean/BV/OpsStage.lean; the formats are documented there.

import (
	"strconv"
	"strings"

	"github.com/boombuler/barcode/aztec"
	"github.com/boombuler/barcode/code128"
	"github.com/boombuler/barcode/code39"
	"github.com/boombuler/barcode/code93"
	"github.com/boombuler/barcode/datamatrix"
	"github.com/boombuler/barcode/ean"
	"github.com/boombuler/barcode/pdf417"
	"github.com/boombuler/barcode/qr"
	"github.com/boombuler/barcode/utils"
)

const stageHooks = true

func bitsField(bl *utils.BitList) string {
	if bl == nil || bl.Len() == 0 {
		return "-"
	}
	var b strings.Builder
	for i := 0; i < bl.Len(); i++ {
		if bl.GetBit(i) {
			b.WriteByte('1')
		} else {
			b.WriteByte('0')
		}
	}
	return b.String()
}

func parseBits(s string) *utils.BitList {
	bl := new(utils.BitList)
	if s == "-" {
		return bl
	}
	for _, c := range s {
		switch c {
		case '0':
			bl.AddBit(false)
		case '1':
			bl.AddBit(true)
		default:
			panic("bad bits " + s)
		}
	}
	return bl
}

func stageOp(f []string) string {
	need := func(n int) {
		if len(f) != n+1 {
			panic("bad arity " + strings.Join(f, " "))
		}
	}
	switch f[0] {
	case "st.pdf.hl":
		need(1)
		w, err := pdf417.VerifHighlevelEncode(string(unhex(f[1])))
		if err != nil {
			return "rej"
		}
		return "ok " + joinInts(w)
	case "st.pdf.dims":
		need(2)
		c, r := pdf417.VerifCalcDimensions(atoi(f[1]), atoi(f[2]))
		return "ok " + strconv.Itoa(c) + " " + strconv.Itoa(r)
	case "st.pdf.ec":
		need(2)
		return "ok " + joinInts(pdf417.VerifCompute(byte(atoi(f[1])), ints(f[2])))
	case "st.pdf.pad":
		need(3)
		return "ok " + joinInts(pdf417.VerifGetPadding(atoi(f[1]), atoi(f[2]), atoi(f[3])))
	case "st.az.hl":
		need(1)
		return "ok " + bitsField(aztec.VerifHighlevelEncode(unhex(f[1])))
	case "st.az.stuff":
		need(2)
		return "ok " + bitsField(aztec.VerifStuffBits(parseBits(f[1]), atoi(f[2])))
	case "st.az.mode":
		need(3)
		return "ok " + bitsField(aztec.VerifGenerateModeMessage(f[1] == "1", atoi(f[2]), atoi(f[3])))
	case "st.az.check":
		need(3)
		return "ok " + bitsField(aztec.VerifGenerateCheckWords(parseBits(f[1]), atoi(f[2]), atoi(f[3])))
	case "st.qr.smallest":
		need(3)
		return "ok " + strconv.Itoa(qr.VerifFindSmallestVersion(qr.ErrorCorrectionLevel(atoi(f[1])), byte(atoi(f[2])), atoi(f[3])))
	case "st.qr.stream":
		need(3)
		bl, v, err := qr.VerifEncodeStream(string(unhex(f[1])), qr.ErrorCorrectionLevel(atoi(f[2])), qr.Encoding(atoi(f[3])))
		if err != nil || bl == nil {
			return "rej"
		}
		return "ok " + strconv.Itoa(v) + " " + bitsField(bl)
	case "st.qr.align":
		need(1)
		v := atoi(f[1])
		if v < 1 || v > 40 {
			return "rej"
		}
		return "ok " + joinInts(qr.VerifAlignmentPlacements(v))
	case "st.qr.blocks":
		need(3)
		out := qr.VerifBlocks(unhex(f[1]), atoi(f[2]), qr.ErrorCorrectionLevel(atoi(f[3])))
		if out == nil {
			return "rej"
		}
		return "ok " + hexField(out)
	case "st.qr.penalty":
		need(2)
		dim := atoi(f[1])
		bl := parseBits(f[2])
		if bl.Len() != dim*dim {
			return "bad-op"
		}
		cells := make([]bool, bl.Len())
		for i := range cells {
			cells[i] = bl.GetBit(i)
		}
		p := qr.VerifPenalty(dim, cells)
		return "ok " + strconv.FormatUint(uint64(p[0]), 10) + " " + strconv.FormatUint(uint64(p[1]), 10) + " " + strconv.FormatUint(uint64(p[2]), 10) + " " + strconv.FormatUint(uint64(p[3]), 10)
	case "st.dm.text":
		need(1)
		return "ok " + hexField(datamatrix.VerifEncodeText(string(unhex(f[1]))))
	case "st.dm.pad":
		need(2)
		return "ok " + hexField(datamatrix.VerifAddPadding(unhex(f[1]), atoi(f[2])))
	case "st.dm.ecc":
		need(2)
		out := datamatrix.VerifCalcECC(unhex(f[1]), atoi(f[2]))
		if out == nil {
			return "rej"
		}
		return "ok " + hexField(out)
	case "st.dm.place":
		need(2)
		cells := datamatrix.VerifPlace(unhex(f[1]), atoi(f[2]))
		if cells == nil {
			return "rej"
		}
		var b strings.Builder
		for _, c := range cells {
			if c {
				b.WriteByte('1')
			} else {
				b.WriteByte('0')
			}
		}
		return "ok " + b.String()
	case "st.ean.chk":
		need(1)
		return "ok " + strconv.Itoa(int(ean.VerifCalcCheckNum(string(unhex(f[1])))))
	case "st.c39.chk":
		need(1)
		return "ok " + hexField([]byte(code39.VerifGetChecksum(string(unhex(f[1])))))
	case "st.c93.chk":
		need(2)
		return "ok " + strconv.Itoa(int(code93.VerifGetChecksum(string(unhex(f[1])), atoi(f[2]))))
	case "st.c39.prep":
		need(1)
		r, err := code39.VerifPrepare(string(unhex(f[1])))
		if err != nil {
			return "rej"
		}
		return "ok " + hexField([]byte(r))
	case "st.c93.prep":
		need(1)
		r, err := code93.VerifPrepare(string(unhex(f[1])))
		if err != nil {
			return "rej"
		}
		return "ok " + hexField([]byte(r))
	case "st.c128.idx":
		need(1)
		out := code128.VerifCodeIndexList(string(unhex(f[1])))
		if out == nil {
			return "rej"
		}
		return "ok " + hexField(out)
	}
	return "bad-op"
}
