package main

// gen_rs.go — Reed-Solomon inputs with *chosen* remainders. For random data every check symbol is non-zero with
// overwhelming probability, so the code that right-aligns a short remainder (leading zeros, a constant, zero) is never
// reached through symbols: in a QR block it needs a 2^-48 coincidence (seed w01, whose inputs were built by Gaussian
// elimination). The generator does the same: with its own GF(2^m) arithmetic it solves for the last k data symbols so
// that the remainder of data·x^k modulo the generator polynomial is a prescribed vector.

import (
	"fmt"
	"strings"
)

type gfGen struct {
	size     int
	exp, log []int
}

func newGFGen(pp, size int) *gfGen {
	f := &gfGen{size: size, exp: make([]int, size), log: make([]int, size)}
	x := 1
	for i := 0; i < size; i++ {
		f.exp[i] = x
		x *= 2
		if x >= size {
			x = (x ^ pp) & (size - 1)
		}
	}
	for i := 0; i < size-1; i++ {
		f.log[f.exp[i]] = i
	}
	return f
}

func (f *gfGen) mul(a, b int) int {
	if a == 0 || b == 0 {
		return 0
	}
	return f.exp[(f.log[a]+f.log[b])%(f.size-1)]
}

func (f *gfGen) inv(a int) int { return f.exp[(f.size-1-f.log[a])%(f.size-1)] }

// generator polynomial with roots alpha^base … alpha^(base+k-1), coefficients high to low
func (f *gfGen) generator(base, k int) []int {
	g := []int{1}
	for d := 0; d < k; d++ {
		r := f.exp[(d+base)%(f.size-1)]
		n := make([]int, len(g)+1)
		for i, c := range g {
			n[i] ^= c
			n[i+1] ^= f.mul(c, r)
		}
		g = n
	}
	return g
}

// remainder of data·x^k modulo g (k = len(g)-1), k coefficients high to low
func (f *gfGen) remainder(data []int, g []int) []int {
	k := len(g) - 1
	buf := append(append([]int{}, data...), make([]int, k)...)
	for i := 0; i < len(data); i++ {
		c := buf[i]
		if c == 0 {
			continue
		}
		for j := 1; j < len(g); j++ {
			buf[i+j] ^= f.mul(c, g[j])
		}
	}
	return buf[len(data):]
}

// craft: data of length n (n >= k) whose remainder is target; the first n-k symbols are taken from pre
func (f *gfGen) craft(pre []int, g []int, target []int) []int {
	k := len(g) - 1
	n := len(pre) + k
	data := append(append([]int{}, pre...), make([]int, k)...)
	base := f.remainder(data, g)
	// columns: remainder of the unit vector at position n-k+j
	m := make([][]int, k) // rows of the augmented matrix [M | rhs]
	for r := range m {
		m[r] = make([]int, k+1)
		m[r][k] = base[r] ^ target[r]
	}
	for j := 0; j < k; j++ {
		e := make([]int, n)
		e[n-k+j] = 1
		col := f.remainder(e, g)
		for r := 0; r < k; r++ {
			m[r][j] = col[r]
		}
	}
	// Gaussian elimination
	for c := 0; c < k; c++ {
		p := -1
		for r := c; r < k; r++ {
			if m[r][c] != 0 {
				p = r
				break
			}
		}
		if p < 0 {
			return nil
		}
		m[c], m[p] = m[p], m[c]
		iv := f.inv(m[c][c])
		for j := c; j <= k; j++ {
			m[c][j] = f.mul(m[c][j], iv)
		}
		for r := 0; r < k; r++ {
			if r != c && m[r][c] != 0 {
				q := m[r][c]
				for j := c; j <= k; j++ {
					m[r][j] ^= f.mul(q, m[c][j])
				}
			}
		}
	}
	for j := 0; j < k; j++ {
		data[n-k+j] = m[j][k]
	}
	return data
}

// remainder targets of length k: zero, a constant, j leading zeros, a zero in the middle, a zero at the end
func (g *gen) rsTargets(f *gfGen, k int) [][]int {
	nz := func() int { return 1 + g.intn(f.size-1) }
	var ts [][]int
	ts = append(ts, make([]int, k))
	for j := 1; j < k && j <= 6; j++ {
		t := make([]int, k)
		for i := j; i < k; i++ {
			t[i] = nz()
		}
		ts = append(ts, t)
	}
	if k >= 2 {
		c := make([]int, k)
		c[k-1] = nz()
		ts = append(ts, c) // a constant
		e := make([]int, k)
		for i := 0; i < k-1; i++ {
			e[i] = nz()
		}
		ts = append(ts, e) // last check symbol zero
	}
	if k >= 3 {
		m := make([]int, k)
		for i := range m {
			m[i] = nz()
		}
		m[k/2] = 0
		ts = append(ts, m)
		one := make([]int, k)
		one[g.intn(k)] = nz()
		ts = append(ts, one)
	}
	return ts
}

// genRSCrafted emits `rs` ops for one field
func (g *gen) genRSCrafted(pp, size, base int) {
	f := newGFGen(pp, size)
	ks := []int{2, 3, 4, 5, 7, 10, 13, 17, 22, 28, 30}
	for _, k := range ks {
		if k > size-2 {
			continue
		}
		gp := f.generator(base, k)
		for _, t := range g.rsTargets(f, k) {
			extra := g.intn(5)
			if k+extra > size-1-k && size-1-k-k >= 0 {
				extra = 0
			}
			pre := make([]int, extra)
			for i := range pre {
				pre[i] = g.intn(size)
			}
			if len(pre) > 0 && g.intn(2) == 0 {
				pre[0] = 1 + g.intn(size-1)
			}
			d := f.craft(pre, gp, t)
			if d == nil {
				continue
			}
			g.emit("rs %d %d %d %d:%s", pp, size, base, k, intsArg(d))
			// the same data followed by more symbols: the chosen vector is then an *intermediate* state of the division
			// (runs of zero coefficients in the running remainder, seed y04)
			if len(d)+6 < size-1-k || size > 256 {
				suf := make([]int, 2+g.intn(5))
				for i := range suf {
					suf[i] = 1 + g.intn(size-1)
				}
				g.emit("rs %d %d %d %d:%s", pp, size, base, k, intsArg(append(append([]int{}, d...), suf...)))
			}
		}
	}
}

// genRSCraftedQR: whole QR blocks (single-block versions) whose check words have leading zeros / are constant / zero
func (g *gen) genRSCraftedQR() {
	f := newGFGen(285, 256)
	// (version, level, data codewords, check codewords) of rows with one block
	rows := [][4]int{{1, 0, 19, 7}, {1, 1, 16, 10}, {1, 2, 13, 13}, {1, 3, 9, 17}, {2, 0, 34, 10}, {2, 1, 28, 16}, {2, 2, 22, 22}, {3, 0, 55, 15}, {4, 0, 80, 20}, {5, 0, 108, 26}}
	for _, r := range rows {
		gp := f.generator(0, r[3])
		if r[2] < r[3] {
			continue // fewer data than check words: not every remainder is reachable
		}
		for _, t := range g.rsTargets(f, r[3]) {
			pre := make([]int, r[2]-r[3])
			for i := range pre {
				pre[i] = g.intn(256)
			}
			d := f.craft(pre, gp, t)
			if d == nil {
				continue
			}
			b := make([]byte, len(d))
			for i, x := range d {
				b[i] = byte(x)
			}
			g.emit("st.qr.blocks %s %d %d", hx(string(b)), r[0], r[1])
		}
	}
}

// genRSCraftedDM: the single-block Data Matrix sizes
func (g *gen) genRSCraftedDM() {
	f := newGFGen(301, 256)
	for i := 0; i < 14 && i < len(dmCaps); i++ {
		k, n := dmEcc[i], dmCaps[i]
		if n < k {
			// fewer data than check words: the last n data symbols cannot span every remainder; use what is solvable
			continue
		}
		gp := f.generator(1, k)
		for _, t := range g.rsTargets(f, k) {
			pre := make([]int, n-k)
			for j := range pre {
				pre[j] = g.intn(256)
			}
			d := f.craft(pre, gp, t)
			if d == nil {
				continue
			}
			b := make([]byte, len(d))
			for j, x := range d {
				b[j] = byte(x)
			}
			g.emit("st.dm.ecc %s %d", hx(string(b)), i)
		}
	}
}

var _ = fmt.Sprint
var _ = strings.Repeat

// ---------------------------------------------------------------------------------------------------------------
// genRSCraftedQRContent: byte-mode *contents* whose single Reed-Solomon block has a prescribed remainder. The codeword
// stream of a byte-mode symbol filled to capacity is 0100 | length (8 bits) | content | 0000; the remainder is a
// GF(2)-linear function of these bits, so content bits with a given remainder are the solution of a linear system over
// GF(2) (fixed header and terminator bits as further equations). The symbols go through the whole encoder and are judged
// by the reference decoder: a wrong check word is a failing *input* of C01, not only a stage disagreement.

type bitRow []uint64

func (r bitRow) get(i int) bool { return r[i/64]>>(uint(i)%64)&1 == 1 }
func (r bitRow) flip(i int)     { r[i/64] ^= 1 << (uint(i) % 64) }
func (r bitRow) xor(o bitRow) {
	for i := range r {
		r[i] ^= o[i]
	}
}

func (g *gen) genRSCraftedQRContent() {
	f := newGFGen(285, 256)
	// version 1..3 rows with one block and 8-bit length field: (level, data codewords, check codewords)
	rows := [][4]int{{1, 0, 19, 7}, {1, 1, 16, 10}, {2, 0, 34, 10}, {2, 1, 28, 16}, {3, 0, 55, 15}}
	for _, r := range rows {
		ncw, k := r[2], r[3]
		nbytes := ncw - 2
		nbits := ncw * 8
		gp := f.generator(0, k)
		// remainder bits of every unit bit vector
		unit := make([][]int, nbits)
		for i := 0; i < nbits; i++ {
			d := make([]int, ncw)
			d[i/8] = 0x80 >> uint(i%8)
			unit[i] = f.remainder(d, gp)
		}
		targets := g.rsTargets(f, k)
		nt := len(targets)
		targets = append(targets, targets...) // second pass: the vector is the state after a prefix of the block
		for ti, t := range targets {
			n1 := ncw
			if ti >= nt {
				n1 = k + 2 + g.intn(ncw-k-2)
				if n1 > ncw-3 {
					n1 = ncw - 3
				}
				if n1 < k+2 {
					continue
				}
			}
			neq := 16 + 8*k
			words := (nbits + 1 + 63) / 64
			eqs := make([]bitRow, 0, neq)
			fix := func(bit int, val bool) {
				row := make(bitRow, words)
				row.flip(bit)
				if val {
					row.flip(nbits)
				}
				eqs = append(eqs, row)
			}
			hdr := 0x400 | nbytes // 0100 + 8-bit length
			for b := 0; b < 12; b++ {
				fix(b, hdr>>uint(11-b)&1 == 1)
			}
			for b := 0; b < 4; b++ {
				fix(nbits-4+b, false)
			}
			// remainder of the first n1 codewords (n1 = ncw: of the whole block)
			unitP := unit
			if n1 < ncw {
				unitP = make([][]int, nbits)
				for i := 0; i < n1*8; i++ {
					d := make([]int, n1)
					d[i/8] = 0x80 >> uint(i%8)
					unitP[i] = f.remainder(d, gp)
				}
			}
			for j := 0; j < k; j++ {
				for b := 0; b < 8; b++ {
					row := make(bitRow, words)
					for i := 0; i < n1*8; i++ {
						if unitP[i][j]>>uint(7-b)&1 == 1 {
							row.flip(i)
						}
					}
					if t[j]>>uint(7-b)&1 == 1 {
						row.flip(nbits)
					}
					eqs = append(eqs, row)
				}
			}
			// elimination; free variables get random values
			pivotOf := make([]int, 0, len(eqs))
			rank := 0
			for c := 0; c < nbits && rank < len(eqs); c++ {
				p := -1
				for rr := rank; rr < len(eqs); rr++ {
					if eqs[rr].get(c) {
						p = rr
						break
					}
				}
				if p < 0 {
					continue
				}
				eqs[rank], eqs[p] = eqs[p], eqs[rank]
				for rr := 0; rr < len(eqs); rr++ {
					if rr != rank && eqs[rr].get(c) {
						eqs[rr].xor(eqs[rank])
					}
				}
				pivotOf = append(pivotOf, c)
				rank++
			}
			ok := true
			for rr := rank; rr < len(eqs); rr++ {
				if eqs[rr].get(nbits) {
					ok = false // inconsistent: this remainder is not reachable with the fixed bits
				}
			}
			if !ok {
				continue
			}
			x := make([]bool, nbits)
			isPivot := make([]bool, nbits)
			for _, c := range pivotOf {
				isPivot[c] = true
			}
			for i := range x {
				if !isPivot[i] {
					x[i] = g.intn(2) == 1
				}
			}
			for rr, c := range pivotOf {
				v := eqs[rr].get(nbits)
				for i := 0; i < nbits; i++ {
					if i != c && eqs[rr].get(i) && x[i] {
						v = !v
					}
				}
				x[c] = v
			}
			content := make([]byte, nbytes)
			for i := 0; i < nbytes*8; i++ {
				if x[12+i] {
					content[i/8] |= 0x80 >> uint(i%8)
				}
			}
			g.emit("qr %s %d 3", hx(string(content)), r[1])
		}
	}
}
