package main

import (
	"fmt"
	"strings"
)

var _ = fmt.Sprint

// ---------------------------------------------------------------- Aztec (C03)

var azClasses = []string{
	"ABCMXYZ ",                     // upper
	"abcmxyz ",                     // lower
	"0123456789,. ",                // digit
	"\x01\x02\x09\x0a\x0d\x1b\x1c\x1f@\\^_`|~\x7f ", // mixed
	"!\"#$%&'()*+,-./:;<=>?[]{}\r",  // punct (the Go table has no '"')
	"\x00\x0e\x1a\x80\x81\xa0\xc3\xe9\xfe\xff",       // binary only
}

var azPairs = []string{"\r\n", ". ", ", ", ": "}

var azPcts = []int{0, 1, 23, 33, 50, 100, 250}

func azWordSize(l int) int {
	switch {
	case l <= 2:
		return 6
	case l <= 8:
		return 8
	case l <= 22:
		return 10
	}
	return 12
}

func azTotal(l int, compact bool) int {
	t := 112
	if compact {
		t = 88
	}
	return (t + 16*l) * l
}

// azFits: do nbits high-level bits that need no bit stuffing fit the symbol (compact, l) at pct?
func azFits(nbits, pct, l int, compact bool) bool {
	ws := azWordSize(l)
	tot := azTotal(l, compact)
	usable := tot - tot%ws
	stuffed := (nbits + ws - 1) / ws * ws
	if compact && stuffed > ws*64 {
		return false
	}
	return stuffed+nbits*pct/100+11 <= usable
}

// azAuto: the step (0..3 compact 1..4, 4..32 full) the automatic selection takes, 33 = too large
func azAuto(nbits, pct int) int {
	for i := 0; i <= 32; i++ {
		compact := i <= 3
		l := i
		if compact {
			l = i + 1
		}
		if nbits+nbits*pct/100+11 > azTotal(l, compact) {
			continue
		}
		if azFits(nbits, pct, l, compact) {
			return i
		}
	}
	return 33
}

// azPlain: n upper-case letters whose 5-bit codes (01010 10101 01101 10010) never form a run of five
// equal bits, so the text takes exactly 5n bits and no stuffing happens at any word size
func (g *gen) azPlain(n int) string { return g.str("ITLQ", n) }

func (g *gen) azText(segments int) string {
	s := ""
	for k := 0; k < segments; k++ {
		if g.intn(6) == 0 {
			s += azPairs[g.intn(4)]
			continue
		}
		c := azClasses[g.intn(len(azClasses))]
		for j, rep := 0, 1+g.intn(4); j < rep; j++ {
			s += string(g.pick(c))
		}
	}
	return s
}

func (g *gen) genAztec() {
	az := func(s string, pct, layers int) { g.emit("aztec %s %d %d", hx(s), pct, layers) }
	pct := func() int { return azPcts[g.intn(len(azPcts))] }

	// --- the empty payload (known open finding), every layer request
	for l := -4; l <= 32; l++ {
		az("", 33, l)
	}
	for _, p := range azPcts {
		az("", p, 0)
	}

	// --- all 256 byte values, alone and inside text; all values in one payload
	for b := 0; b < 256; b++ {
		az(string([]byte{byte(b)}), 33, 0)
	}
	for b := 0; b < 256; b += g.n(5, 1) {
		az("Ab1"+string([]byte{byte(b)})+"x", pct(), 0)
	}
	for i := 0; i < g.n(2, 10); i++ {
		all := make([]byte, 256)
		for k := range all {
			all[k] = byte(k)
		}
		for k := 255; k > 0; k-- {
			j := g.intn(k + 1)
			all[k], all[j] = all[j], all[k]
		}
		az(string(all), pct(), 0)
	}
	all := make([]byte, 256)
	for k := range all {
		all[k] = byte(k)
	}
	az(string(all), 33, 0)

	// --- every ordered pair / triple of character classes
	nc := len(azClasses)
	for a := 0; a < nc; a++ {
		for b := 0; b < nc; b++ {
			x, y := string(g.pick(azClasses[a])), string(g.pick(azClasses[b]))
			az(x+y, 33, 0)
			az(x+x+y+y+x, 33, 0)
			for c := 0; c < nc; c++ {
				z := string(g.pick(azClasses[c]))
				az(x+y+z, 33, 0)
				if g.thorough() {
					az(x+x+x+y+z+z+z, pct(), 0)
				}
			}
		}
	}
	// --- punctuation pairs in every context, and their near misses
	for _, p := range azPairs {
		az(p, 33, 0)
		az(p+p, 33, 0)
		az(p[:1], 33, 0)
		az(p[1:], 33, 0)
		az(p[:1]+p[:1]+p[1:], 33, 0)
		for a := 0; a < nc; a++ {
			x := string(g.pick(azClasses[a]))
			az(x+p, 33, 0)
			az(p+x, 33, 0)
			az(x+p[:1], 33, 0)
			for b := 0; b < nc; b++ {
				y := string(g.pick(azClasses[b]))
				az(x+x+p+y+y, 33, 0)
				az(x+p+p+y, pct(), 0)
				az(x+p[:1]+y+p[1:], 33, 0)
			}
		}
	}
	// --- mode-switch-heavy random text
	for i := 0; i < g.n(500, 22000); i++ {
		s := g.azText(1 + g.intn(14))
		l := 0
		if g.intn(5) == 0 {
			l = -4 + g.intn(16) // -4 .. 11
		}
		az(s, pct(), l)
	}
	for i := 0; i < g.n(30, 300); i++ {
		az(g.azText(40+g.intn(200)), pct(), 0)
	}
	// --- binary runs of the critical lengths between every class
	runs := []int{1, 2, 30, 31, 32, 33, 61, 62, 63, 64}
	if g.thorough() {
		runs = append(runs, 65, 93, 94, 2077, 2078, 2079, 2080)
	}
	for _, r := range runs {
		reps := 1
		if r > 100 {
			reps = 0
		}
		az(g.bytes(r), 23, 0)
		az(g.str(azClasses[5], r), 0, 0)
		for a := 0; a < nc*reps; a++ {
			x := string(g.pick(azClasses[a]))
			az(x+g.str(azClasses[5], r), 33, 0)
			az(g.str(azClasses[5], r)+x, 33, 0)
			y := string(g.pick(azClasses[g.intn(nc)]))
			az(x+x+g.bytes(r)+y+y, pct(), 0)
			az(x+g.str(azClasses[5], r)+azPairs[g.intn(4)]+y, 33, 0)
		}
		if r > 100 {
			az("a"+g.str(azClasses[5], r), 0, 0)
			az("1"+g.str(azClasses[5], r)+". x", 0, 0)
		}
	}
	// two binary runs separated by one character that is cheaper to keep in binary / to switch for
	for _, r := range []int{1, 5, 31, 62} {
		for a := 0; a < nc; a++ {
			x := string(g.pick(azClasses[a]))
			az(g.str(azClasses[5], r)+x+g.str(azClasses[5], r), 33, 0)
		}
	}

	// --- every explicit layer request: capacity - 1, capacity, capacity + 1 (no-stuffing text)
	for l := -4; l <= 32; l++ {
		if l == 0 {
			continue
		}
		compact, n := l < 0, l
		if compact {
			n = -l
		}
		pcts := azPcts
		if !g.thorough() && n > 8 {
			k := 3
			if n > 22 {
				k = 2
			}
			pcts = nil
			for len(pcts) < k {
				pcts = append(pcts, azPcts[(l+len(pcts)*3+g.intn(2))%len(azPcts)])
			}
		}
		for _, p := range pcts {
			c := 0
			for azFits(5*(c+1), p, n, compact) {
				c++
			}
			for _, k := range []int{c - 1, c, c + 1} {
				if k >= 1 {
					az(g.azPlain(k), p, l)
				}
			}
		}
		// payloads that need stuffing / several modes, around the capacity
		for i := 0; i < g.n(2, 12); i++ {
			p := pct()
			c := 0
			for azFits(8*(c+1)+10, p, n, compact) {
				c++
			}
			var s string
			switch g.intn(3) {
			case 0:
				s = g.bytes(c * (90 + g.intn(12)) / 100)
			case 1:
				s = g.str("\x00\xff", c*(88+g.intn(14))/100) // long runs of equal bits: heavy stuffing
			default:
				s = g.azText(c)
				if len(s) > c*3/2 {
					s = s[:c*3/2]
				}
			}
			az(s, p, l)
		}
		az("A", 33, l)
	}
	// --- automatic selection: the largest text of each step and the first of the next one
	for i := 0; i <= 32; i++ {
		pcts := azPcts
		if !g.thorough() {
			pcts = []int{33}
			if i < 12 {
				pcts = append(pcts, pct())
			}
			if i == 32 {
				pcts = append(pcts, 0) // the absolute maximum: 3991 letters
			}
		}
		for _, p := range pcts {
			c := 0
			for azAuto(5*(c+1), p) <= i {
				c++
			}
			if c >= 1 {
				az(g.azPlain(c), p, 0)
			}
			az(g.azPlain(c+1), p, 0)
		}
	}
	g.azStuffSweep()
	// the 64-data-word limit of compact symbols
	for _, n := range []int{101, 102, 103} { // 102 letters = 510 bits = 64 words of 8 bits
		az(g.azPlain(n), 0, 0)
		az(g.azPlain(n), 0, -4)
		az(g.azPlain(n), 1, -4)
		az(g.bytes(n-40), 0, -4)
	}
	// --- too large, illegal layer requests, out-of-domain percentages
	for _, n := range []int{3400, 3992, 4000, 5000} {
		az(g.azPlain(n), 0, 0)
	}
	az(g.bytes(1920), 0, 0)
	az(g.bytes(2400), 0, 0)
	az(g.azPlain(2000), 100, 0)
	for _, l := range []int{-5, -6, -100, 33, 34, 1000} {
		az("ABC", 33, l)
		az("", 33, l)
	}
	for _, p := range []int{-1, -50, -100, -150, -1000} {
		az("ABC", p, 0)
		az(g.azPlain(40), p, 0)
		az(g.azPlain(40), p, -1)
		az(g.azPlain(40), p, 1)
	}
}

// azStuffSweep: explicit layer requests with payloads that bit stuffing lengthens by 12-20 % (runs of 0xff / 0x00
// bytes, "O " = 10000 00001), every length from well below to just above the point where the *unstuffed* stream would
// still fit. In this band the stuffed stream decides: too large for the request, more than 64 words in a compact
// symbol, fewer check words than the percentage asks for. (Seeds s03, s06: the fit test / the 64-word test made on
// the unstuffed length.)
func (g *gen) azStuffSweep() {
	var layers []int
	for l := -4; l <= 32; l++ {
		if l == 0 {
			continue
		}
		if g.thorough() || l <= 5 {
			layers = append(layers, l)
		}
	}
	if !g.thorough() {
		layers = append(layers, 6+g.intn(9), 15+g.intn(18))
	}
	pcts := []int{0, 5, 10, 14, 23, 33}
	if !g.thorough() {
		pcts = []int{0, 10, 33, []int{5, 14, 23}[g.intn(3)]}
	}
	for _, l := range layers {
		compact, n := l < 0, l
		if compact {
			n = -l
		}
		for _, p := range pcts {
			for kind := 0; kind < 3; kind++ {
				bits := func(k int) int {
					switch {
					case kind == 2:
						return 5 * k
					case k <= 31:
						return 10 + 8*k
					default:
						return 21 + 8*k
					}
				}
				mk := func(k int) string {
					switch kind {
					case 0:
						return strings.Repeat("\xff", k)
					case 1:
						return strings.Repeat("\x00", k)
					}
					return strings.Repeat("O ", k/2) + "O"[:k%2]
				}
				c := 0
				for azFits(bits(c+1), p, n, compact) {
					c++
				}
				lo, step := c*3/4, 1
				if c > 120 {
					step = c / 40
					if g.thorough() {
						step = c / 120
					}
				}
				for k := lo; k <= c+1; k += step {
					if k >= 1 {
						g.emit("aztec %s %d %d", hx(mk(k)), p, l)
					}
				}
				g.emit("aztec %s %d %d", hx(mk(c)), p, l)
				g.emit("aztec %s %d %d", hx(mk(c+1)), p, l)
			}
		}
	}
}
