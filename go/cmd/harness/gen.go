package main

// gen.go — structured, seeded generators. Every random choice comes from one splitmix64 stream.

import (
	"bufio"
	"encoding/hex"
	"fmt"
	"strings"
)

type rng struct{ s uint64 }

func (r *rng) next() uint64 {
	r.s += 0x9E3779B97F4A7C15
	z := r.s
	z = (z ^ (z >> 30)) * 0xBF58476D1CE4E5B9
	z = (z ^ (z >> 27)) * 0x94D049BB133111EB
	return z ^ (z >> 31)
}
func (r *rng) intn(n int) int {
	if n <= 0 {
		return 0
	}
	return int(r.next() % uint64(n))
}
func (r *rng) pick(s string) byte { return s[r.intn(len(s))] }
func (r *rng) str(alpha string, n int) string {
	b := make([]byte, n)
	for i := range b {
		b[i] = r.pick(alpha)
	}
	return string(b)
}
func (r *rng) bytes(n int) string {
	b := make([]byte, n)
	for i := range b {
		b[i] = byte(r.next())
	}
	return string(b)
}

type gen struct {
	rng
	tier string
	w    *bufio.Writer
	seen map[string]bool
}

func (g *gen) thorough() bool { return g.tier == "thorough" }

// n picks the quick or thorough count
func (g *gen) n(quick, thorough int) int {
	if g.thorough() {
		return thorough
	}
	return quick
}

func hx(s string) string {
	if len(s) == 0 {
		return "-"
	}
	return hex.EncodeToString([]byte(s))
}

// emit writes an op line once (duplicates are dropped so that counts are of distinct ops)
func (g *gen) emit(format string, a ...interface{}) {
	line := fmt.Sprintf(format, a...)
	if g.seen[line] {
		return
	}
	g.seen[line] = true
	fmt.Fprintln(g.w, line)
}

const digits = "0123456789"

func (g *gen) property(p string) bool {
	switch p {
	case "C01":
		g.genQR()
		g.stageQR()
		g.dictFamily("qr")
		g.pow2Positions("qr")
		g.genRSCrafted(285, 256, 0)
		g.genRSCraftedQR()
		g.genRSCraftedQRContent()
	case "C02":
		g.genDM()
		g.stageDM()
		g.dictFamily("dm")
		g.pow2Positions("dm")
		g.genRSCrafted(301, 256, 1)
		g.genRSCraftedDM()
	case "C03":
		g.genAztec()
		g.stageAztec()
		g.dictFamily("aztec")
		g.pow2Positions("aztec")
		for _, f := range [][3]int{{19, 16, 1}, {67, 64, 1}, {301, 256, 1}, {1033, 1024, 1}, {4201, 4096, 1}} {
			g.genRSCrafted(f[0], f[1], f[2])
		}
	case "C04":
		g.genPDF()
		g.stagePDF()
		g.dictFamily("pdf")
		g.pow2Positions("pdf")
	case "C05":
		g.genC128()
		g.stageC128()
		g.dictFamily("c128")
	case "C06":
		g.genEAN(true)
		g.stageEAN()
		g.dictFamily("ean")
	case "C07":
		g.genC39C93()
		g.stageC39C93()
		g.dictFamily("c39")
		g.dictThresholds()
	case "C08":
		g.genCodabar()
		g.genTof()
		g.dictFamily("c08")
	case "C09":
		g.genScale()
	case "C10":
		// acceptance is decided at every capacity boundary and for every input class of every symbology: the
		// cross-cutting properties C10, C12, C13 run their own workloads plus the complete symbol workloads of the
		// families they speak about (a change that C03 sees must not escape C12 because of a narrower workload)
		g.genAccept()
		g.genQR()
		g.genDM()
		g.genAztec()
		g.genPDF()
		g.genEAN(true)
		for _, f := range []string{"qr", "dm", "aztec", "pdf", "c128", "c39", "ean", "c08"} {
			g.dictFamily(f)
		}
	case "C11":
		g.genRender()
	case "C12":
		g.genECC()
		g.genQR()
		g.genDM()
		g.genAztec()
		g.genPDF()
		g.stagePDFec()
	case "C13":
		g.genSmallest()
		g.genQR()
		g.genDM()
		g.genAztec()
		g.genPDF()
		g.stageSizes()
	case "C14":
		g.genCheckSum()
		g.stageEAN()
		g.stageC39C93()
		g.dictThresholds()
	case "C15":
		g.genMixed(g.n(400, 3000), true)
	case "C16":
		g.genMixed(g.n(300, 1500), false)
	case "C17":
		g.genGF()
	case "C18":
		g.genBitList()
	default:
		return false
	}
	return true
}

func gs1(body string) byte {
	sum := 0
	w := 3
	for i := len(body) - 1; i >= 0; i-- {
		sum += int(body[i]-'0') * w
		w = 4 - w
	}
	return byte('0' + (10-sum%10)%10)
}

func (g *gen) genEAN(malformed bool) {
	for _, n := range []int{7, 12} {
		// every (position, digit) cell, for every first digit
		for first := 0; first < 10; first++ {
			for pos := 1; pos < n; pos++ {
				for d := 0; d < 10; d++ {
					b := []byte(g.str(digits, n))
					b[0] = byte('0' + first)
					b[pos] = byte('0' + d)
					g.emit("ean %s", hx(string(b)))
					if g.intn(4) == 0 {
						full := string(b) + string(gs1(string(b)))
						g.emit("ean %s", hx(full))
					}
				}
			}
		}
		// extreme weighted sums: one repeated digit (sum 0 for zeros, the maximum for nines), a single non-zero digit
		// among zeros (sums 1..27), each as data, completed, and with every final digit (seed s01: a check-digit
		// formula that is only wrong for the weighted sum 0)
		for d := 0; d < 10; d++ {
			b := strings.Repeat(string(rune('0'+d)), n)
			g.emit("ean %s", hx(b))
			g.emit("ean %s", hx(b+string(rune('0'+d))))
			for c := 0; c < 10; c++ {
				if d == 0 || d == 9 || c == int(gs1(b)-'0') {
					g.emit("ean %s", hx(b+string(rune('0'+c))))
				}
			}
		}
		for pos := 0; pos < n; pos++ {
			for d := 1; d < 10; d++ {
				b := []byte(strings.Repeat("0", n))
				b[pos] = byte('0' + d)
				g.emit("ean %s", hx(string(b)))
				g.emit("ean %s", hx(string(b)+string(gs1(string(b)))))
			}
		}
		for i := 0; i < g.n(200, 5000); i++ {
			b := g.str(digits, n)
			g.emit("ean %s", hx(b))
			g.emit("ean %s", hx(b+string(gs1(b))))
			// wrong check digit
			g.emit("ean %s", hx(b+string(byte('0'+(int(gs1(b)-'0')+1+g.intn(9))%10))))
		}
	}
	if !malformed {
		return
	}
	for l := 0; l <= 15; l++ {
		for i := 0; i < 8; i++ {
			g.emit("ean %s", hx(g.str(digits, l)))
		}
	}
	noise := []string{"A", "B", "F", " ", "-", "+", "\x00", "\xff", "\xc3\xa9", "\xef\xbc\x91", "\xd9\xa1", "/", ":"}
	for _, n := range []int{7, 8, 12, 13} {
		for pos := 0; pos < n; pos++ {
			for _, ns := range noise {
				b := g.str(digits, n)
				if pos+len(ns) <= n {
					s := b[:pos] + ns + b[pos+len(ns):]
					g.emit("ean %s", hx(s))
				}
			}
		}
	}
}

// ---------------------------------------------------------------- Code 128

const fncs = "\u00f1\u00f2\u00f3\u00f4"

func c128Alphabet() []string {
	var a []string
	for c := 0; c < 128; c++ {
		a = append(a, string(rune(c)))
	}
	for _, r := range fncs {
		a = append(a, string(r))
	}
	return a
}

func (g *gen) genC128() {
	alpha := c128Alphabet()
	both := func(s string) {
		g.emit("c128 %s", hx(s))
		g.emit("c128nc %s", hx(s))
	}
	// exhaustive: lengths 1 and 2 over the 132-symbol alphabet
	for _, a := range alpha {
		both(a)
	}
	for _, a := range alpha {
		for _, b := range alpha {
			both(a + b)
		}
	}
	classes := []string{digits, "ABCXYZ _", "abcxyz~\x7f", "\x00\x01\x1f\n", "\u00f1", "\u00f2\u00f3\u00f4"}
	pickClass := func(c int) string {
		rs := []rune(classes[c])
		return string(rs[g.intn(len(rs))])
	}
	// digit runs of every length 1..9 x preceding / following class x FNC1 at every offset
	for run := 1; run <= 9; run++ {
		for pre := -1; pre < len(classes); pre++ {
			for post := -1; post < len(classes); post++ {
				s := ""
				if pre >= 0 {
					s += pickClass(pre)
				}
				s += g.str(digits, run)
				if post >= 0 {
					s += pickClass(post)
				}
				both(s)
				for off := 0; off <= run; off++ {
					t := ""
					if pre >= 0 {
						t += pickClass(pre)
					}
					d := g.str(digits, run)
					t += d[:off] + "\u00f1" + d[off:]
					if post >= 0 {
						t += pickClass(post)
					}
					both(t)
				}
			}
		}
	}
	// extremal expansion: strict alternations of two classes (every neighbouring pair forces a code-set switch, a shift
	// or a latch) at every length up to the limit of 80 runes and one beyond — the longest symbols the encoder can produce
	// (seed w05: a buffer sized one symbol character short of the true worst case)
	alts := [][2]string{{"\x00", "a"}, {"\x1f", "\x7f"}, {"\n", "z"}, {"12", "a"}, {"1", "a"}, {"\u00f1", "12"}, {"A", "\x01"}, {"99", "\x01"}, {"\u00f4", "a"}, {"\u00f4", "\x02"}}
	for _, p := range alts {
		for n := 1; n <= 81; n++ {
			if !g.thorough() && n > 6 && n < 70 && n%9 != 0 {
				continue
			}
			var b strings.Builder
			runes := 0
			for k := 0; runes < n; k++ {
				t := p[k%2]
				b.WriteString(t)
				runes += len([]rune(t))
			}
			both(b.String())
		}
	}
	// transition-heavy random strings
	for i := 0; i < g.n(1500, 40000); i++ {
		n := 1 + g.intn(12)
		if g.intn(5) == 0 {
			n = 1 + g.intn(80)
		}
		s := ""
		for k := 0; k < n; k++ {
			c := g.intn(len(classes))
			if g.intn(3) == 0 {
				c = 0
			}
			rep := 1 + g.intn(4)
			for j := 0; j < rep; j++ {
				s += pickClass(c)
			}
		}
		if rs := []rune(s); len(rs) > 80 && g.intn(4) != 0 {
			s = string(rs[:80])
		}
		both(s)
	}
	// length boundaries
	for _, n := range []int{79, 80, 81, 82, 160} {
		both(g.str(digits, n))
		both(g.str("ABC", n))
		both(g.str("abc", n))
		both(g.str("\x01\x02", n))
		s := ""
		for k := 0; k < n; k++ {
			s += "\u00f1"
		}
		both(s)
	}
	both("")
	// outside the alphabet
	for _, bad := range []string{"\x80", "\xff", "\u00e9", "\u00f0", "\u00f5", "\u20ac", "\U0001F600", "\xc3", "\xed\xa0\x80"} {
		both(bad)
		both("12" + bad)
		both(bad + "AB")
		both("ab" + bad + "1234")
	}
}

// ---------------------------------------------------------------- Code 39 / Code 93

const c39Alphabet = "0123456789ABCDEFGHIJKLMNOPQRSTUVWXYZ-. $/+%"

func (g *gen) genC39C93() {
	opts := [][2]int{{0, 0}, {0, 1}, {1, 0}, {1, 1}}
	emit := func(s string) {
		for _, o := range opts {
			g.emit("c39 %s %d %d", hx(s), o[0], o[1])
			g.emit("c93 %s %d %d", hx(s), o[0], o[1])
		}
	}
	// extremal expansion: long contents in which every character expands to a pair (full ASCII) / none does, and the
	// lengths at which the Code 93 weights wrap (20 for C, 15 for K) several times over
	for _, alpha := range []string{"a", "a%", "\x00\x7f", "A", "A-", "%$+/", "z~", "09"} {
		for _, n := range []int{14, 15, 16, 19, 20, 21, 29, 30, 31, 39, 40, 41, 42, 43, 44, 45, 59, 60, 61, 86, 87, 100, 129, 200} {
			if !g.thorough() && n > 61 && alpha != "a%" && alpha != "A-" {
				continue
			}
			emit(strings.Repeat(alpha, n/len(alpha)+1)[:n])
		}
	}
	for _, n := range g.longLengths(13, 26) {
		g.emit("c39 %s %d 0", hx(g.str(c39Alphabet, n)), g.intn(2))
		g.emit("c39 %s 0 1", hx(g.str("ab", n/2)))
	}
	for _, n := range g.longLengths(9, 37) {
		g.emit("c93 %s %d 0", hx(g.str(c39Alphabet, n)), g.intn(2))
		g.emit("c93 %s 1 1", hx(g.str("ab", n/2)))
	}
	// exhaustive lengths 0..2 over ASCII 0..127 (contains the 43-character alphabet and '*')
	emit("")
	for a := 0; a < 128; a++ {
		emit(string(rune(a)))
	}
	for a := 0; a < 128; a++ {
		for b := 0; b < 128; b++ {
			emit(string([]byte{byte(a), byte(b)}))
		}
	}
	for i := 0; i < g.n(800, 20000); i++ {
		n := 3 + g.intn(30)
		emit(g.str(c39Alphabet, n))
		b := make([]byte, n)
		for k := range b {
			b[k] = byte(g.intn(128))
		}
		emit(string(b))
	}
	// boundaries of the alphabets: DEL, 0x80, FNC placeholders of Code 93, other non-ASCII
	for _, bad := range []string{"\x7f", "\x80", "\xff", "\u00f1", "\u00f2", "\u00f3", "\u00f4", "\u00f0", "\u00f5", "\u00e9", "\u20ac", "*", "a", "\xc3"} {
		emit(bad)
		emit("AB" + bad)
		emit(bad + "12")
		emit("A" + bad + "B")
	}
	// long texts exercise the weight wrap-around of Code 93 (20 / 15)
	for _, n := range []int{14, 15, 16, 19, 20, 21, 22, 40, 41, 60} {
		emit(g.str(c39Alphabet, n))
	}
}

// ---------------------------------------------------------------- Codabar / 2 of 5

const codabarChars = "0123456789-$:/.+ABCD"

// longLengths: content lengths at which a symbol of `per` modules per character (plus `extra` modules) crosses the
// storage growth steps of the bit list (4096, 8192, 16384, 32768 bits; thorough: 65536, 98304) — one character below,
// at, and above each. Multi-bit appends that straddle a re-allocation are the classic way to lose a partly filled word
// (seeds s05, x06), and only symbols of that length execute them.
func (g *gen) longLengths(per, extra int) []int {
	bounds := []int{4096, 8192, 16384, 32768}
	if g.thorough() {
		bounds = append(bounds, 65536, 98304)
	}
	var out []int
	for _, b := range bounds {
		n := (b - extra) / per
		for d := -2; d <= 2; d++ {
			if n+d > 0 {
				out = append(out, n+d)
			}
		}
	}
	return out
}

func (g *gen) genCodabar() {
	for _, n := range g.longLengths(11, 22) {
		g.emit("codabar %s", hx("A"+g.str("0123456789-$", n)+"B"))
		g.emit("codabar %s", hx("C"+g.str("1", n)+"D"))
	}
	alpha := codabarChars + "!Ea"
	maxLen := g.n(4, 5)
	var rec func(prefix string)
	rec = func(prefix string) {
		g.emit("codabar %s", hx(prefix))
		if len(prefix) == maxLen {
			return
		}
		for i := 0; i < len(alpha); i++ {
			rec(prefix + string(alpha[i]))
		}
	}
	rec("")
	for i := 0; i < g.n(1500, 30000); i++ {
		n := g.intn(20)
		s := string(g.pick("ABCD")) + g.str(codabarChars[:16], n) + string(g.pick("ABCD"))
		switch g.intn(6) {
		case 0:
			k := g.intn(len(s))
			s = s[:k] + string(g.pick("ABCD!aE \n\x80")) + s[k:]
		case 1:
			s = s + string(g.pick("\n !x"))
		case 2:
			s = string(g.pick("\n !x1")) + s
		}
		g.emit("codabar %s", hx(s))
	}
	for _, s := range []string{"!", "!!", "A!", "!A", "A\nB", "AB\n", "\nAB", "A\u00e9B", "\u00c1B", "AA!", "!AA"} {
		g.emit("codabar %s", hx(s))
	}
}

func (g *gen) genTof() {
	for _, n := range g.longLengths(14, 10) {
		g.emit("tof %s 0", hx(g.str(digits, n)))
		g.emit("tof %s 1", hx(g.str(digits, 2*n)))
	}
	maxLen := g.n(5, 6)
	var rec func(prefix string)
	rec = func(prefix string) {
		g.emit("tof %s 0", hx(prefix))
		g.emit("tof %s 1", hx(prefix))
		g.emit("tofcs %s", hx(prefix))
		if len(prefix) == maxLen {
			return
		}
		for i := 0; i < 10; i++ {
			rec(prefix + string(digits[i]))
		}
	}
	rec("")
	for i := 0; i < g.n(500, 20000); i++ {
		s := g.str(digits, 6+g.intn(30))
		g.emit("tof %s 0", hx(s))
		g.emit("tof %s 1", hx(s))
		g.emit("tofcs %s", hx(s))
	}
	noise := []string{"A", " ", "-", "\x00", "\xff", "\u00e9", "\uff11", "/", ":", "\xc3"}
	for _, ns := range noise {
		for _, base := range []string{"", "1", "12", "123", "1234"} {
			for pos := 0; pos <= len(base); pos++ {
				s := base[:pos] + ns + base[pos:]
				g.emit("tof %s 0", hx(s))
				g.emit("tof %s 1", hx(s))
				g.emit("tofcs %s", hx(s))
			}
		}
	}
}

// ---------------------------------------------------------------- C17 Galois fields / polynomials / Reed-Solomon

// the fields the library constructs (tied to /repo by the obligation C17.fields_are_call_sites on BV.Gen)
var gfFields = [][3]int{{19, 16, 1}, {67, 64, 1}, {285, 256, 0}, {301, 256, 1}, {1033, 1024, 1}, {4201, 4096, 1}}

func (g *gen) ilist(n, max int) string {
	if n == 0 {
		return "-"
	}
	s := ""
	for i := 0; i < n; i++ {
		if i > 0 {
			s += ","
		}
		s += fmt.Sprint(g.intn(max))
	}
	return s
}

func (g *gen) genGF() {
	for _, f := range gfFields {
		g.genRSCrafted(f[0], f[1], f[2])
		g.emit("gf.tables %d %d %d", f[0], f[1], f[2])
		g.emit("gf.inv %d %d %d", f[0], f[1], f[2])
		g.emit("gf.div0 %d %d %d %d", f[0], f[1], f[2], 1+g.intn(f[1]-1))
		rows := f[1]
		all := f[1] <= 256 || g.thorough()
		if !all {
			rows = 48
			if f[1] == 4096 {
				rows = 12
			}
		}
		for i := 0; i < rows; i++ {
			a := i
			if !all {
				a = g.intn(f[1])
				if i < 4 {
					a = []int{0, 1, 2, f[1] - 1}[i]
				}
			}
			g.emit("gf.mulrow %d %d %d %d", f[0], f[1], f[2], a)
			g.emit("gf.divrow %d %d %d %d", f[0], f[1], f[2], a)
		}
		// polynomials
		for i := 0; i < g.n(150, 2000); i++ {
			np := 1 + g.intn(12)
			nq := 1 + g.intn(6)
			p := g.ilist(np, f[1])
			q := fmt.Sprint(1 + g.intn(f[1]-1)) // non-zero leading coefficient
			if nq > 1 {
				q += "," + g.ilist(nq-1, f[1])
			}
			if g.intn(6) == 0 {
				p = "0," + p
			}
			g.emit("poly %d %d %d div %s %s", f[0], f[1], f[2], p, q)
			g.emit("poly %d %d %d mul %s %s", f[0], f[1], f[2], p, q)
			g.emit("poly %d %d %d add %s %s", f[0], f[1], f[2], p, q)
			g.emit("poly %d %d %d mulmono %s %d,%d", f[0], f[1], f[2], p, g.intn(6), g.intn(f[1]))
		}
		// the zero polynomial (in all its spellings) and constants as operands; equal degrees; monomials
		zeros := []string{"0", "0,0", "0,0,0,0"}
		for _, z := range zeros {
			for _, o := range []string{"0", "1", "5", "0,3", "2,0,1", g.ilist(4, f[1])} {
				g.emit("poly %d %d %d add %s %s", f[0], f[1], f[2], z, o)
				g.emit("poly %d %d %d add %s %s", f[0], f[1], f[2], o, z)
				g.emit("poly %d %d %d mul %s %s", f[0], f[1], f[2], z, o)
				g.emit("poly %d %d %d mul %s %s", f[0], f[1], f[2], o, z)
				if o != "0" {
					g.emit("poly %d %d %d div %s %s", f[0], f[1], f[2], z, o)
				}
			}
			g.emit("poly %d %d %d mulmono %s 3,2", f[0], f[1], f[2], z)
		}
		for i := 0; i < g.n(20, 200); i++ {
			n := 1 + g.intn(6)
			p := fmt.Sprint(1+g.intn(f[1]-1)) + "," + g.ilist(n, f[1])
			q := fmt.Sprint(1+g.intn(f[1]-1)) + "," + g.ilist(n, f[1])
			g.emit("poly %d %d %d div %s %s", f[0], f[1], f[2], p, q) // equal degrees: exactly one division step
			g.emit("poly %d %d %d div %s %s", f[0], f[1], f[2], q, "1")
			g.emit("poly %d %d %d add %s %s", f[0], f[1], f[2], p, p) // cancels to zero
			g.emit("poly %d %d %d mulmono %s %d,0", f[0], f[1], f[2], p, g.intn(4))
			g.emit("poly %d %d %d mono %d %d", f[0], f[1], f[2], g.intn(12), g.intn(f[1]))
		}
		g.emit("poly %d %d %d mono 0 0", f[0], f[1], f[2])
		g.emit("poly %d %d %d mono 5 0", f[0], f[1], f[2])
		g.emit("poly %d %d %d mono 0 1", f[0], f[1], f[2])
		// Reed-Solomon: sequences of Encode calls on one shared encoder, in random request orders
		maxK := f[1] - 1
		if maxK > 600 {
			maxK = 600
		}
		for i := 0; i < g.n(40, 400); i++ {
			calls := 1 + g.intn(5)
			s := ""
			for c := 0; c < calls; c++ {
				k := 1 + g.intn(maxK)
				if g.intn(3) == 0 {
					k = 1 + g.intn(12)
				}
				if g.intn(10) == 0 {
					k = maxK
				}
				n := g.intn(40)
				if g.intn(8) == 0 {
					n = g.intn(300)
				}
				if c > 0 {
					s += ";"
				}
				s += fmt.Sprintf("%d:%s", k, g.ilist(n, f[1]))
			}
			g.emit("rs %d %d %d %s", f[0], f[1], f[2], s)
		}
		// every check-symbol count once, ascending and descending on shared encoders (history)
		if g.thorough() || f[1] <= 256 {
			up, down := "", ""
			for k := 1; k <= maxK; k++ {
				d := g.ilist(1+g.intn(6), f[1])
				if k > 1 {
					up += ";"
					down = ";" + down
				}
				up += fmt.Sprintf("%d:%s", k, d)
				down = fmt.Sprintf("%d:%s", k, d) + down
			}
			g.emit("rs %d %d %d %s", f[0], f[1], f[2], up)
			g.emit("rs %d %d %d %s", f[0], f[1], f[2], down)
		}
	}
}

// ---------------------------------------------------------------- C18 BitList

func (g *gen) genBitList() {
	// exhaustive: every script of up to L operations over a reduced alphabet, from several initial lists
	inits := []string{"z", "n0", "n1", "n31", "n32", "n33", "n64"}
	alpha := []string{"a0", "a1", "B165", "b5,3", "b-2,9", "sF", "sL", "A101"}
	L := g.n(4, 5)
	var rec func(script []string, length int, depth int)
	rec = func(script []string, length int, depth int) {
		// read everything back at the end
		out := append([]string{}, script...)
		for i := 0; i < length && i < 80; i++ {
			out = append(out, fmt.Sprintf("g%d", i))
		}
		g.emit("bl %s", joinStr(out))
		if depth == L {
			return
		}
		for _, a := range alpha {
			nl := length
			tok := a
			switch a {
			case "a0", "a1":
				nl++
			case "B165":
				nl += 8
			case "b5,3":
				nl += 3
			case "b-2,9":
				nl += 9
			case "A101":
				nl += 3
			case "sF":
				if length == 0 {
					continue
				}
				tok = fmt.Sprintf("s0,%d", depth%2)
			case "sL":
				if length == 0 {
					continue
				}
				tok = fmt.Sprintf("s%d,%d", length-1, (depth+1)%2)
			}
			rec(append(append([]string{}, script...), tok), nl, depth+1)
		}
	}
	for _, in := range inits {
		n := 0
		if in != "z" {
			fmt.Sscanf(in, "n%d", &n)
		}
		rec([]string{in}, n, 0)
	}
	// random long scripts crossing the 32-bit word and the 128-/1024-word growth boundaries
	for i := 0; i < g.n(60, 400); i++ {
		target := []int{40, 100, 4000, 4200, 9000, 33000, 70000}[g.intn(7)]
		if g.thorough() && g.intn(4) == 0 {
			target = 200000
		}
		in := "z"
		length := 0
		if g.intn(3) == 0 {
			length = g.intn(5000)
			if g.intn(2) == 0 {
				length = 32 * g.intn(140)
			}
			in = fmt.Sprintf("n%d", length)
		}
		script := []string{in}
		for length < target {
			switch g.intn(7) {
			case 0:
				script = append(script, fmt.Sprintf("a%d", g.intn(2)))
				length++
			case 1:
				script = append(script, fmt.Sprintf("B%d", g.intn(256)))
				length += 8
			case 2, 3:
				k := g.intn(33)
				if g.intn(10) == 0 {
					k = g.intn(70)
				}
				x := int64(g.next())
				if g.intn(2) == 0 {
					x = int64(g.intn(1 << 20))
				}
				script = append(script, fmt.Sprintf("b%d,%d", x, k))
				length += k
			case 4:
				if length > 0 {
					script = append(script, fmt.Sprintf("s%d,%d", g.intn(length), g.intn(2)))
				}
			case 5:
				if length > 0 {
					script = append(script, fmt.Sprintf("g%d", g.intn(length)))
				}
			case 6:
				n := g.intn(40)
				b := "A"
				for j := 0; j < n; j++ {
					b += string(byte('0' + g.intn(2)))
				}
				if n > 0 {
					script = append(script, b)
					length += n
				}
			}
		}
		g.emit("bl %s", joinStr(script))
	}
}

func joinStr(a []string) string {
	s := ""
	for i, x := range a {
		if i > 0 {
			s += " "
		}
		s += x
	}
	return s
}
