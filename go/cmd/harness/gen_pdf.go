package main

import (
	"fmt"
)

var _ = fmt.Sprint

// ---------------------------------------------------------------- PDF417

// character classes of the Text compaction sub-modes
var pdfClasses = []string{
	"ABCDEFGHIJKLMNOPQRSTUVWXYZ", // upper
	"abcdefghijklmnopqrstuvwxyz", // lower
	"&#+%=^",                     // only in Mixed
	";<>@[\\]_`~!\n\"|()?{}'",    // only in Punctuation
	"\r\t,:-.$/*",                // in Mixed and in Punctuation
	" ",                          // space (Upper, Lower, Mixed)
	digits,                       // Mixed
}

func (g *gen) pdfLevel() int { return g.intn(9) }

func (g *gen) pdf(s string, level int) { g.emit("pdf %s %d", hx(s), level) }

// pdfBytes: n bytes outside the Text alphabet; kind 0: >= 128, 1: control characters, 2: both
func (g *gen) pdfBytes(n, kind int) string {
	ctrl := []byte{0, 1, 2, 8, 11, 12, 14, 27, 31, 127}
	b := make([]byte, n)
	for i := range b {
		k := kind
		if k == 2 {
			k = g.intn(2)
		}
		if k == 0 {
			b[i] = byte(128 + g.intn(128))
		} else {
			b[i] = ctrl[g.intn(len(ctrl))]
		}
	}
	return string(b)
}

// pdfWords: a string that the high-level encoder turns into (about) m codewords; kind 0 is exact
func (g *gen) pdfWords(m, kind int) string {
	switch kind {
	case 1: // numeric: 902 + 15 codewords per 44 digits, n/3+1 for the rest
		if m < 2 {
			return g.str(digits, 1)
		}
		full := (m - 1) / 15
		rest := (m - 1) % 15
		n := full * 44
		if rest > 0 {
			n += (rest - 1) * 3
			if n == 0 {
				n = 1
			}
		}
		if n == 0 {
			n = 1
		}
		return g.str(digits, n)
	case 2: // bytes: latch + 5 codewords per 6 bytes + one per remaining byte
		if m < 2 {
			return g.pdfBytes(1, 0)
		}
		full := (m - 1) / 5
		rest := (m - 1) % 5
		return g.pdfBytes(full*6+rest, 2)
	case 3: // lower-case text: latch + 2 per codeword
		if m < 1 {
			return ""
		}
		return g.str(pdfClasses[1], 2*m-1)
	}
	return g.str(pdfClasses[0], 2*m)
}

func (g *gen) genPDF() {
	cls := func(c int) string { return string(g.pick(pdfClasses[c])) }
	run := func(c, n int) string {
		s := ""
		for i := 0; i < n; i++ {
			s += cls(c)
		}
		return s
	}
	nc := len(pdfClasses)

	// the empty string and one-character strings at every level, malformed levels
	for lvl := 0; lvl <= 8; lvl++ {
		g.pdf("", lvl)
		g.pdf("A", lvl)
		g.pdf("\x00", lvl)
		g.pdf("7", lvl)
	}
	for _, d := range []string{"", "A", "PDF417 barcode", "1234567890123", "\x80\x81", "Hello, World! 0123456789012345 \xff\xfe"} {
		for _, lvl := range []int{0, 1, 2, 3, 4, 5, 6, 7, 8, 9, 10, 128, 255} {
			g.pdf(d, lvl)
		}
	}

	// all 256 byte values: alone, inside text (byte shift), doubled (byte latch)
	for b := 0; b < 256; b++ {
		c := string([]byte{byte(b)})
		g.pdf(c, g.pdfLevel())
		g.pdf("ABCDEF"+c+"ghijkl", g.pdfLevel())
		if g.thorough() || b%4 == 0 {
			g.pdf("abc12"+c+c+"X;Y:Z/", g.pdfLevel())
		}
	}

	// sub-mode transitions: all ordered pairs and triples of classes, run lengths 1..3
	for v := 0; v < g.n(1, 8); v++ {
		for a := 0; a < nc; a++ {
			for b := 0; b < nc; b++ {
				g.pdf(run(a, 1+g.intn(3))+run(b, 1+g.intn(3)), g.pdfLevel())
				for c := 0; c < nc; c++ {
					g.pdf(run(a, 1+g.intn(3))+run(b, 1+g.intn(3))+run(c, 1+g.intn(3)), g.pdfLevel())
				}
			}
		}
	}
	// quadruples with single characters (latch / shift decisions look one character ahead)
	for i := 0; i < g.n(300, 2401); i++ {
		a, b, c, d := i%nc, (i/nc)%nc, (i/nc/nc)%nc, (i/nc/nc/nc)%nc
		if !g.thorough() {
			a, b, c, d = g.intn(nc), g.intn(nc), g.intn(nc), g.intn(nc)
		}
		g.pdf(cls(a)+cls(b)+cls(c)+cls(d), g.pdfLevel())
	}

	// texts ending in every sub-mode with an odd / even number of values, followed by nothing, a shifted
	// byte + text, a byte run, a digit run
	ends := [][2]string{
		{"ABCDE", "ABCDEF"}, // Upper  5 / 6 values
		{"abcdef", "abcde"}, // Lower  7 / 6
		{"12&456", "12&45"}, // Mixed  7 / 6
		{"1;;;;", "1;;;;;"}, // Punct  7 / 8
		{"AB;DE", "AB;DEF"}, // Upper with ps  6 / 7
		{"abCde", "abCdef"}, // Lower with as
		{"ab;de", "ab;def"}, // Lower with ps
		{"12;456", "12;45"}, // Mixed with ps (next not punctuation)
		{"A;", "Ab;"},       // ps + character as the last two values
		{"1&<>", "1&<>@"},   // Mixed -> Punct latch
		{"1&<>A", "1&<>Ab"}, // Punct -> Upper latch
	}
	for _, e := range ends {
		for par := 0; par < 2; par++ {
			base := e[par]
			g.pdf(base, g.pdfLevel())
			for kind := 0; kind < 2; kind++ {
				for c := 0; c < nc; c++ {
					// one byte (shift 913) then at least six text characters starting with class c
					if g.thorough() || g.intn(2) == 0 {
						g.pdf(base+g.pdfBytes(1, kind)+cls(c)+run(g.intn(nc), 5+g.intn(3)), g.pdfLevel())
					} else {
						g.pdf(base+g.pdfBytes(1, kind)+cls(c)+cls(c)+"ABCDE", g.pdfLevel())
					}
				}
				g.pdf(base+g.pdfBytes(1, kind), g.pdfLevel())
				g.pdf(base+g.pdfBytes(1, kind)+"AB", g.pdfLevel())
				g.pdf(base+g.pdfBytes(1, kind)+base+g.pdfBytes(1, kind)+base+"XYZ", g.pdfLevel())
				g.pdf(base+g.pdfBytes(2+g.intn(5), kind)+base+"xyz", g.pdfLevel())
				g.pdf(base+g.pdfBytes(6, kind)+base+"xyz", g.pdfLevel())
			}
			g.pdf(base+g.str(digits, 13+g.intn(4))+base+"*", g.pdfLevel())
			g.pdf(g.str(digits, 13)+base, g.pdfLevel())
			g.pdf(g.pdfBytes(3, 2)+base+"-", g.pdfLevel())
		}
	}

	// digit runs around the numeric thresholds (13) and chunk sizes (44, 88), embedded in text / bytes
	pre := []string{"", "ABCDE", "abcde fgh", "x;y;z;", "\x80", "\x01\x02\x03\x04\x05\x06", "A"}
	post := []string{"", "ABCDEF", "abc", ";", "\xff", "\x00\x01\x02\x03\x04\x05\x06"}
	for v := 0; v < g.n(1, 5); v++ {
		lens := []int{1, 5, 11, 12, 13, 14, 15, 43, 44, 45, 46, 88, 89, 90}
		if g.thorough() {
			lens = append(lens, 2, 3, 16, 42, 47, 87, 91, 132, 133)
		}
		for _, n := range lens {
			for _, p := range pre {
				for qi, q := range post {
					if !g.thorough() && qi != g.intn(len(post)) && qi != g.intn(len(post)) {
						continue
					}
					d := g.str(digits, n)
					if g.intn(4) == 0 {
						d = "000" + d[3%len(d):] // leading zeros
						if len(d) > n {
							d = d[:n]
						}
					}
					g.pdf(p+d+q, g.pdfLevel())
				}
			}
		}
	}

	// byte runs of every length mod 6 between text
	bpre := []string{"", "ABCDEF", "abcdef", "12&45;", "1;;;;", "1234567890123"}
	bpost := []string{"", "ABCDEF", "abcd", "hello world", "1234567890123", "12345"}
	for v := 0; v < g.n(1, 5); v++ {
		for n := 1; n <= 13; n++ {
			for _, p := range bpre {
				for qi, q := range bpost {
					if !g.thorough() && qi != g.intn(len(bpost)) && qi != g.intn(len(bpost)) {
						continue
					}
					g.pdf(p+g.pdfBytes(n, g.intn(3))+q, g.pdfLevel())
				}
			}
		}
		for _, n := range []int{17, 18, 19, 23, 24, 25, 29, 30, 31, 60, 61} {
			g.pdf(g.pdfBytes(n, 2), g.pdfLevel())
			g.pdf("Text: "+g.pdfBytes(n, 2)+" more text", g.pdfLevel())
		}
	}
	// short text / digit islands inside byte data (the 5-character and 13-digit thresholds)
	for n := 1; n <= 7; n++ {
		for _, c := range []int{0, 1, 3, 6} {
			g.pdf(g.pdfBytes(2, 0)+run(c, n)+g.pdfBytes(2, 0), g.pdfLevel())
			g.pdf(g.pdfBytes(1, 1)+run(c, n), g.pdfLevel())
			g.pdf(run(c, n)+g.pdfBytes(1, 0), g.pdfLevel())
		}
	}

	// UTF-8: the encoder converts between bytes and runes; multi-byte and invalid sequences
	for _, u := range []string{"\u00e9", "\u20ac", "\U0001F600", "\xc3", "\xe2\x82", "\xf0\x9f\x98", "\xed\xa0\x80", "\xc0\x80", "\xef\xbf\xbd", "\u0661\u0662"} {
		g.pdf(u, g.pdfLevel())
		g.pdf("ABCDEF"+u+"ghijkl", g.pdfLevel())
		g.pdf("1234567890123"+u+"1234567890123", g.pdfLevel())
		g.pdf(u+u+u+"abc"+u, g.pdfLevel())
		g.pdf("12"+u+"34", g.pdfLevel())
	}

	// every total codeword count: reaches every (rows, cols) shape, and the 30 x 30 limit per level
	for v := 0; v < g.n(1, 4); v++ {
		for n := 3; n <= 905; n++ {
			lvl := g.intn(9)
			for (2<<uint(lvl))+1 > n {
				lvl--
			}
			m := n - 1 - (2 << uint(lvl))
			kind := 0
			if g.intn(3) == 0 {
				kind = 1 + g.intn(3)
			}
			g.pdf(g.pdfWords(m, kind), lvl)
		}
	}
	for lvl := 0; lvl <= 8; lvl++ {
		maxM := 900 - 1 - (2 << uint(lvl)) // largest number of data codewords that fits 30 x 30
		for d := -2; d <= 2; d++ {
			for kind := 0; kind < 4; kind++ {
				g.pdf(g.pdfWords(maxM+d, kind), lvl)
			}
		}
	}
	// far beyond the limit
	g.pdf(g.str(pdfClasses[0], 2500), 0)
	g.pdf(g.str(digits, 3000), 2)
	g.pdf(g.pdfBytes(1500, 2), 1)
	g.pdf(g.str(pdfClasses[1]+" ,.", 1795), 0)

	// mode-switch-heavy random data
	rclasses := append([]string{}, pdfClasses...)
	rclasses = append(rclasses, digits, digits, "\x80\x90\xa0\xff\xc3\xa9", "\x00\x01\x1f\x7f", "., :\r\n")
	for i := 0; i < g.n(500, 20000); i++ {
		target := []int{0, 1, 2, 3, 5, 8, 13, 20, 40, 70, 150}[g.intn(11)]
		s := ""
		for len(s) < target {
			c := g.intn(len(rclasses) + 1)
			k := []int{1, 1, 1, 2, 2, 3, 4, 5, 6, 7, 12, 13, 14, 31, 44, 45}[g.intn(16)]
			for j := 0; j < k; j++ {
				if c == len(rclasses) {
					s += string([]byte{byte(g.next())})
				} else {
					s += string(g.pick(rclasses[c]))
				}
			}
		}
		if g.intn(2) == 0 && len(s) > target {
			s = s[:target]
		}
		if g.intn(12) == 0 {
			s = s + s + s
		}
		g.pdf(s, g.pdfLevel())
	}

	// colour schemes are passed through
	g.emit("pdf %s 2 @RGBAModel|RGBA:ff,ff,00,ff|RGBA:00,00,80,ff", hx("Colour 1"))
	g.emit("pdf %s 0 @GrayModel|Gray:ff|Gray:00", hx("Colour 2"))
	g.emit("pdf %s 9 @GrayModel|Gray:ff|Gray:00", hx("Colour 3"))
}
