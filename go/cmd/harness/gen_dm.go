package main

import (
	"fmt"
)

var _ = fmt.Sprint

// ---------------------------------------------------------------- DataMatrix (C02)

// data codeword capacities of the 24 ECC 200 square symbols (ISO/IEC 16022), smallest first
var dmCaps = []int{3, 5, 8, 12, 18, 22, 30, 36, 44, 62, 86, 114, 144, 174, 204, 280, 368, 456, 576, 696, 816, 1050, 1304, 1558}

const dmLetters = "ABCXYZabcxyz !\"#$%&'()*+,-./:;<=>?@[\\]^_`{|}~\x00\x01\x1f\x7f\n\r\t"

// dmContent builds a content whose ASCII encodation (digit pair = 1 codeword, other ASCII byte = 1,
// byte >= 128 = 2) has exactly n codewords.  kind: 0 letters, 1 digit pairs, 2 odd digit runs,
// 3 bytes >= 128, 4 mixture.
func (g *gen) dmContent(kind, n int) string {
	var b []byte
	letter := func() { b = append(b, g.pick(dmLetters)) }
	high := func() { b = append(b, byte(128+g.intn(128))) }
	switch kind {
	case 0:
		for i := 0; i < n; i++ {
			letter()
		}
	case 1:
		b = append(b, g.str(digits, 2*n)...)
	case 2:
		// runs of odd length 2k+1 (k+1 codewords) separated by a letter (1 codeword)
		left := n
		for left > 0 {
			k := g.intn(6)
			if g.intn(4) == 0 {
				k = g.intn(left)
			}
			if k+1 > left {
				k = left - 1
			}
			b = append(b, g.str(digits, 2*k+1)...)
			left -= k + 1
			if left > 0 {
				letter()
				left--
			}
		}
	case 3:
		for i := 0; i+1 < n; i += 2 {
			high()
		}
		if n%2 == 1 {
			letter()
		}
	default:
		left := n
		lastDigit := false
		for left > 0 {
			switch t := g.intn(4); {
			case t == 0 && left >= 2:
				high()
				left -= 2
				lastDigit = false
			case t == 1 && !lastDigit:
				k := 1 + g.intn(4)
				if k > left {
					k = left
				}
				odd := g.intn(2)
				b = append(b, g.str(digits, 2*k-odd)...)
				left -= k
				lastDigit = true
			default:
				letter()
				left--
				lastDigit = false
			}
		}
	}
	return string(b)
}

func (g *gen) genDM() {
	// main.go derives the state as seed*GAMMA+c and next() adds GAMMA, so seeds s and s+1 walk the same
	// stream one draw apart; jump to a hashed state so that different seeds give unrelated streams
	g.rng.s = g.next() ^ 0xD1B54A32D192ED03
	dm := func(s string) { g.emit("dm %s", hx(s)) }
	dm("")
	// capacity boundaries of every size x every content class
	for _, c := range dmCaps {
		for _, n := range []int{c - 1, c, c + 1} {
			for kind := 0; kind < 5; kind++ {
				for rep := 0; rep < g.n(2, 12); rep++ {
					dm(g.dmContent(kind, n))
				}
			}
		}
	}
	// every byte value alone, every digit pair, digits next to the neighbours of '0'..'9'
	for v := 0; v < 256; v++ {
		dm(string([]byte{byte(v)}))
	}
	for a := 0; a < 10; a++ {
		for b := 0; b < 10; b++ {
			dm(string([]byte{byte('0' + a), byte('0' + b)}))
		}
	}
	for _, x := range "/:\x00\x7f" {
		for _, t := range []string{"1%c", "%c1", "1%c2", "12%c", "%c12", "1%c23"} {
			dm(fmt.Sprintf(t, byte(x)))
		}
	}
	for _, x := range []byte{0x80, 0xb0, 0xb9, 0xff} {
		for _, t := range []string{"1%s", "%s1", "1%s2", "12%s", "%s12", "1%s23"} {
			dm(fmt.Sprintf(t, string([]byte{x})))
		}
	}
	all := make([]byte, 256)
	for i := range all {
		all[i] = byte(i)
	}
	dm(string(all))
	for i := 0; i < g.n(4, 40); i++ {
		p := append([]byte(nil), all...)
		for k := len(p) - 1; k > 0; k-- {
			j := g.intn(k + 1)
			p[k], p[j] = p[j], p[k]
		}
		dm(string(p))
	}
	// UTF-8, valid and invalid: the encoder works on bytes
	for _, u := range []string{"\u00e9", "\u20ac", "\U0001F600", "\xc3", "\xe2\x82", "\xed\xa0\x80", "\xff\xfe", "\xc0\x80", "\xf4\x90\x80\x80", "\xef\xbf\xbd"} {
		dm(u)
		dm("12" + u)
		dm(u + "345")
		dm("a" + u + u + "b")
	}
	// random byte strings: target size uniform over the 24 sizes, random length below its capacity
	for i := 0; i < g.n(700, 9000); i++ {
		c := dmCaps[g.intn(len(dmCaps))]
		n := g.intn(c + 1)
		switch g.intn(4) {
		case 0:
			n = n * 2 / 3 // bytes >= 128 take two codewords
		case 1:
			n = g.intn(40)
		}
		dm(g.bytes(n))
	}
	// digit-heavy random text (mode-switch-like boundaries between pairs and single characters)
	for i := 0; i < g.n(300, 4000); i++ {
		n := 1 + g.intn(60)
		if g.intn(6) == 0 {
			n = 1 + g.intn(2500)
		}
		dm(g.str("0123456789012345678901234567890123456789aZ \xff\x80", n))
	}
	// beyond capacity: 1558 data codewords is the maximum
	for _, n := range []int{1559, 1560, 1561, 1600, 3000} {
		for kind := 0; kind < 5; kind++ {
			dm(g.dmContent(kind, n))
		}
	}
	dm(g.str(digits, 3116)) // 1558 pairs: fits
	dm(g.str(digits, 3117)) // 1558 pairs + 1 digit: does not
	dm(g.str(digits, 3118))
	dm(g.bytes(1100))
	dm(g.bytes(5000))
	// explicit colour schemes (EncodeWithColor)
	for _, sch := range []string{
		"@RGBAModel|RGBA:ff,ff,ff,ff|RGBA:00,00,00,ff",
		"@RGBAModel|RGBA:00,00,00,ff|RGBA:ff,ff,ff,ff",
		"@GrayModel|Gray:80|Gray:80",
		"@RGBA64Model|RGBA64:1234,5678,9abc,ffff|RGBA64:0000,ffff,0000,8000",
	} {
		for _, n := range []int{0, 1, 3, 4, 45, 63, 1558, 1559} {
			g.emit("dm %s %s", hx(g.dmContent(4, n)), sch)
		}
	}
}
