//go:build !verif

package main

// without the hooks of /repo (build tag `verif`) the stage ops cannot be executed; bin/check skips them
func stageOp(f []string) string { return "nohook" }

const stageHooks = false
