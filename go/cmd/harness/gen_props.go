package main

// gen_props.go — generators of the cross-cutting properties C09–C14 (and the colour schemes they use).

import (
	"fmt"
	"strconv"
	"strings"
)

// ---------------------------------------------------------------- colour schemes

var schemeSamples = []string{
	"@GrayModel|Gray:ff|Gray:00",
	"@Gray16Model|Gray16:ffff|Gray16:0000",
	"@RGBAModel|RGBA:ff,ff,ff,ff|RGBA:00,00,00,ff",
	"@RGBAModel|RGBA:ff,00,00,ff|RGBA:00,00,ff,ff",
	"@NRGBAModel|NRGBA:10,20,30,80|NRGBA:f0,e0,d0,40",
	"@CMYKModel|CMYK:00,00,00,00|CMYK:00,00,00,ff",
	"@CMYKModel|CMYK:10,80,20,05|CMYK:ff,00,7f,30",
	"@RGBAModel|RGBA:40,20,10,80|RGBA:40,20,10,80", // foreground = background
	"@GrayModel|RGBA:ff,ff,00,ff|Gray16:1234",      // model and colour types deliberately mixed
	"@RGBA64Model|RGBA64:ffff,8000,0000,ffff|NRGBA64:0001,0002,0003,0004",
}

func (g *gen) randScheme() string {
	if g.intn(3) != 0 {
		return schemeSamples[g.intn(len(schemeSamples))]
	}
	col := func() string {
		switch g.intn(5) {
		case 0:
			return fmt.Sprintf("Gray:%02x", g.intn(256))
		case 1:
			return fmt.Sprintf("Gray16:%04x", g.intn(65536))
		case 2:
			a := g.intn(256)
			return fmt.Sprintf("RGBA:%02x,%02x,%02x,%02x", g.intn(a+1), g.intn(a+1), g.intn(a+1), a)
		case 3:
			return fmt.Sprintf("NRGBA:%02x,%02x,%02x,%02x", g.intn(256), g.intn(256), g.intn(256), g.intn(256))
		}
		return fmt.Sprintf("CMYK:%02x,%02x,%02x,%02x", g.intn(256), g.intn(256), g.intn(256), g.intn(256))
	}
	m := []string{"GrayModel", "Gray16Model", "RGBAModel", "NRGBAModel", "CMYKModel"}[g.intn(5)]
	return "@" + m + "|" + col() + "|" + col()
}

// sizeOf runs an op on the real implementation to learn the symbol size (only steers generation)
func sizeOf(op string) (int, int, bool) {
	r := execOp(op)
	if !strings.HasPrefix(r, "ok ") {
		return 0, 0, false
	}
	w, h := 0, 0
	for _, t := range strings.Fields(r) {
		if strings.HasPrefix(t, "w=") {
			w, _ = strconv.Atoi(t[2:])
		}
		if strings.HasPrefix(t, "h=") {
			h, _ = strconv.Atoi(t[2:])
		}
	}
	return w, h, true
}

// ---------------------------------------------------------------- representative contents per family

// one op (without scheme) per symbol size class of every family
func (g *gen) representativeOps(dense bool) []string {
	var ops []string
	add := func(f string, a ...interface{}) { ops = append(ops, fmt.Sprintf(f, a...)) }
	// 1-D
	for _, n := range []int{7, 8, 12, 13} {
		b := g.str(digits, n)
		if n == 8 || n == 13 {
			b = b[:n-1] + string(gs1(b[:n-1]))
		}
		add("ean %s", hx(b))
	}
	for _, n := range []int{1, 2, 5, 17, 80} {
		add("c128 %s", hx(g.str("ABCabc0123456789 \x01", n)))
		add("c128nc %s", hx(g.str("ABCabc0123456789", n)))
	}
	for _, n := range []int{0, 1, 7, 30} {
		for _, o := range [][2]int{{0, 0}, {1, 0}, {0, 1}, {1, 1}} {
			s := g.str(c39Alphabet, n)
			if o[1] == 1 {
				s = g.str("abcXYZ019 %$!\x00\x7f", n)
			}
			add("c39 %s %d %d", hx(s), o[0], o[1])
			add("c93 %s %d %d", hx(s), o[0], o[1])
		}
	}
	for _, n := range []int{0, 1, 9} {
		add("codabar %s", hx(string(g.pick("ABCD"))+g.str(codabarChars[:16], n)+string(g.pick("ABCD"))))
	}
	// the public constructors of utils/base1dcode.go on caller-made bars (with and without a check value)
	add("raw1d %s %s %s -", hx("Custom"), hx("free text"), g.randBits(1+g.intn(40)))
	add("raw1d %s %s %s %d", hx("Custom CS"), hx("\x00\xff"), g.randBits(1+g.intn(40)), g.intn(1000)-300)
	add("raw1d - - 1 0")
	for _, n := range []int{1, 2, 6, 20} {
		add("tof %s 0", hx(g.str(digits, n)))
		add("tof %s 1", hx(g.str(digits, 2*n)))
	}
	// QR: every version (level rotates), byte mode at capacity
	for v := 1; v <= 40; v++ {
		if !dense && v > 6 && v%5 != 0 {
			continue
		}
		lvl := v % 4
		add("qr %s %d 3", hx(g.str("abcdefgh", qrCapacity(v, lvl, 3))), lvl)
	}
	add("qr %s 0 0", hx("HELLO WORLD"))
	add("qr %s 2 1", hx("0123456789012"))
	add("qr %s 3 2", hx("ABC $%*+-./:"))
	// DataMatrix: every size
	for i, c := range dmCaps {
		if !dense && i > 9 && i%4 != 0 {
			continue
		}
		add("dm %s", hx(g.dmContent(0, c)))
	}
	// Aztec: every layer request
	for l := -4; l <= 32; l++ {
		if l == 0 || (!dense && l > 6 && l%6 != 0) {
			continue
		}
		add("aztec %s 23 %d", hx(g.str("Aztec 12,abc.", 3+g.intn(6))), l)
	}
	add("aztec %s 33 0", hx("Hello, World. 12345"))
	// PDF417
	for _, n := range []int{0, 1, 10, 60, 200, 700} {
		if !dense && n > 200 {
			continue
		}
		add("pdf %s %d", hx(g.str("PDF417 text, 0123456789;", n)), g.intn(6))
	}
	return ops
}

// ---------------------------------------------------------------- C09 Scale

func (g *gen) genScale() {
	fills := []string{"-", "RGBA:ff,00,00,ff", "Gray:80", "Gray16:1234", "NRGBA:10,20,30,40", "CMYK:01,02,03,04"}
	// every integer factor 1..260 (thorough 1..700) on the narrowest sources: a 3-module and a 7-module caller-made 1D
	// code of height 1 (exact multiple, and with a remainder of one / of factor-1 pixels), and the smallest 2D symbols at
	// a sample of large factors. Windows around a source never exceed factor 4; a per-pixel mapping that goes through
	// floating point is wrong only from factor 49 on (seed x04).
	tiny := []string{"raw1d " + hx("k") + " " + hx("c") + " 101 -", "raw1d " + hx("k") + " " + hx("c") + " 1101001 7"}
	for ti, src := range tiny {
		w0 := []int{3, 7}[ti]
		top := g.n(260, 700)
		for f := 1; f <= top; f++ {
			fl := fills[(f+ti)%len(fills)]
			g.emit("scale %d %d %s %s", w0*f, 1+f%3, fl, src)
			if f%2 == ti {
				g.emit("scale %d %d %s %s", w0*f+1, 1, fl, src)
				g.emit("scale %d %d %s %s", w0*f+f-1, 2, fl, src)
			}
		}
	}
	for _, src := range []string{"dm " + hx("A"), "aztec " + hx("A") + " 33 0", "qr " + hx("A") + " 0 0"} {
		w0, h0, ok := sizeOf(src)
		if !ok {
			continue
		}
		for i := 0; i < g.n(3, 12); i++ {
			f := 40 + g.intn(90)
			if i == 0 {
				f = 49 + g.intn(60)
			}
			g.emit("scale %d %d %s %s", w0*f+g.intn(f), h0*f+g.intn(2*f), fills[g.intn(len(fills))], src)
		}
	}
	small := []string{
		"ean " + hx("12345670"),
		"tof " + hx("12") + " 1",
		"codabar " + hx("A1B"),
		"c93 " + hx("A") + " 1 0",
		"c39 " + hx("A") + " 0 0",
		"qr " + hx("A") + " 0 0",
		"dm " + hx("A"),
		"aztec " + hx("A") + " 33 0",
		"pdf " + hx("A") + " 0",
		"qr " + hx("B") + " 1 3 @RGBAModel|RGBA:ff,00,00,ff|RGBA:00,00,ff,ff",
		"c128 " + hx("a") + " @CMYKModel|CMYK:10,80,20,05|CMYK:ff,00,7f,30",
	}
	for si, src := range small {
		w0, h0, ok := sizeOf(src)
		if !ok {
			continue
		}
		maxW, maxH := 3*w0+3, 3*h0+3
		total := maxW * maxH
		budget := g.n(1500, 12000)
		fill := fills[si%len(fills)]
		if total <= budget {
			// exhaustive window
			for w := 1; w <= maxW; w++ {
				for h := 1; h <= maxH; h++ {
					g.emit("scale %d %d %s %s", w, h, fill, src)
				}
			}
		} else {
			edge := func(n0 int) []int {
				return []int{1, n0 - 1, n0, n0 + 1, 2*n0 - 1, 2 * n0, 2*n0 + 1, 3*n0 - 1, 3 * n0, 3*n0 + 3}
			}
			for _, w := range edge(w0) {
				for _, h := range edge(h0) {
					if w >= 1 && h >= 1 {
						g.emit("scale %d %d %s %s", w, h, fill, src)
					}
				}
			}
			for i := 0; i < budget/4; i++ {
				g.emit("scale %d %d %s %s", 1+g.intn(maxW), 1+g.intn(maxH), fills[g.intn(len(fills))], src)
			}
		}
		// other fills on a few sizes, zero and negative requests (outside the quantifier, must not crash the harness)
		for _, f := range fills {
			g.emit("scale %d %d %s %s", 2*w0+1, 2*h0+1, f, src)
			g.emit("scale %d %d %s %s", w0, h0, f, src)
		}
		// chains through an EXACT k-fold intermediate (no fill area), then a request that is not a multiple of it,
		// and one smaller than the intermediate (must be an error)
		for _, k := range []int{2, 3, 4} {
			w1, h1 := k*w0, k*h0
			for _, q := range [][2]int{{w1*3/2 + 1, h1*3/2 + 1}, {w1*5/2, h1*5/2}, {w1 + 1, h1 + 1}, {w1 - 1, h1}, {w1, h1 - 1}, {w0, h0}, {2 * w1, 2 * h1}, {7 * w0, 7 * h0}} {
				if q[0] >= 1 && q[1] >= 1 && q[0]*q[1] < 400000 {
					g.emit("scale %d %d %s scale %d %d %s %s", q[0], q[1], fills[(k+q[0])%len(fills)], w1, h1, fills[k%len(fills)], src)
				}
			}
			if w1*h1*4 < 200000 {
				g.emit("scale %d %d - scale %d %d - scale %d %d - %s", 7*w0, 7*h0, 2*w1, 2*h1, w1, h1, src)
			}
		}
		// chains of repeated scaling
		for i := 0; i < g.n(12, 80); i++ {
			w1, h1 := w0+g.intn(2*w0+2), h0+g.intn(2*h0+2)
			w2, h2 := w1-1+g.intn(2*w1+2), h1-1+g.intn(2*h1+2)
			if w2 < 1 {
				w2 = 1
			}
			if h2 < 1 {
				h2 = 1
			}
			f1, f2 := fills[g.intn(len(fills))], fills[g.intn(len(fills))]
			g.emit("scale %d %d %s scale %d %d %s %s", w2, h2, f2, w1, h1, f1, src)
			if g.intn(2) == 0 {
				w3, h3 := w2+g.intn(w2+2), h2+g.intn(h2+2)
				g.emit("scale %d %d %s scale %d %d %s scale %d %d %s %s", w3, h3, fills[g.intn(len(fills))], w2, h2, f2, w1, h1, f1, src)
			}
		}
	}
	// larger sources, sampled
	for _, src := range g.representativeOps(g.thorough()) {
		w0, h0, ok := sizeOf(src)
		if !ok || w0*h0 > 40000 {
			continue
		}
		for i := 0; i < g.n(2, 6); i++ {
			k := 1 + g.intn(3)
			w, h := w0*k+g.intn(w0), h0*k+g.intn(h0+1)
			if w0*k*h0*k > 250000 {
				w, h = w0+g.intn(w0), h0+g.intn(h0+1)
			}
			g.emit("scale %d %d %s %s", w, h, fills[g.intn(len(fills))], src)
		}
		g.emit("scale %d %d - %s", w0-1, h0+5, src)
		g.emit("scale %d %d - %s", w0+5, h0-1, src)
	}
}

// ---------------------------------------------------------------- C14 CheckSum

func (g *gen) genCheckSum() {
	var base []string
	for i := 0; i < g.n(150, 2000); i++ {
		for _, n := range []int{7, 12} {
			b := g.str(digits, n)
			base = append(base, "ean "+hx(b), "ean "+hx(b+string(gs1(b))))
		}
	}
	// every check digit value for both lengths
	for _, n := range []int{7, 12} {
		seen := map[byte]bool{}
		for len(seen) < 10 {
			b := g.str(digits, n)
			if c := gs1(b); !seen[c] {
				seen[c] = true
				base = append(base, "ean "+hx(b))
			}
		}
	}
	for i := 0; i < g.n(300, 4000); i++ {
		base = append(base, "c128 "+hx(g.str("ABCabc0123456789 \x01\x02", 1+g.intn(20))))
	}
	// Code 39: every single character (all 43 check values), then random texts x option mixes
	for i := 0; i < len(c39Alphabet); i++ {
		for _, o := range []string{"0 0", "1 0"} {
			base = append(base, "c39 "+hx(string(c39Alphabet[i]))+" "+o)
		}
	}
	for i := 0; i < g.n(300, 4000); i++ {
		o := []string{"0 0", "1 0", "0 1", "1 1"}[g.intn(4)]
		s := g.str(c39Alphabet, g.intn(16))
		if strings.HasSuffix(o, "1") {
			s = g.str("abcXYZ019 %$!\x00\x7f", g.intn(12))
		}
		base = append(base, "c39 "+hx(s)+" "+o)
	}
	for i, b := range base {
		g.emit("%s", b)
		rounds := i % 4
		if rounds == 0 {
			continue
		}
		w0, _, ok := sizeOf(b)
		if !ok {
			continue
		}
		op := b
		w := w0
		for r := 0; r < rounds; r++ {
			w = w*(1+g.intn(2)) + g.intn(5)
			op = fmt.Sprintf("scale %d %d - %s", w, 1+g.intn(4), op)
		}
		g.emit("%s", op)
	}
}

// ---------------------------------------------------------------- C11 rendering contract

func (g *gen) genRender() {
	for _, op := range g.representativeOps(g.thorough()) {
		g.emit("%s", op)
		for i := 0; i < g.n(2, 5); i++ {
			g.emit("%s %s", op, g.randScheme())
		}
	}
	// every sample scheme on one small symbol per family
	for _, op := range []string{"ean " + hx("1234567"), "c128 " + hx("Ab1"), "c128nc " + hx("Ab1"), "c39 " + hx("A-1") + " 1 0",
		"c93 " + hx("a") + " 1 1", "codabar " + hx("A12B"), "tof " + hx("1234") + " 1", "tof " + hx("123") + " 0",
		"qr " + hx("hello") + " 1 0", "dm " + hx("hello"), "aztec " + hx("hello") + " 33 0", "aztec " + hx("hello") + " 33 5",
		"pdf " + hx("hello") + " 2"} {
		for _, s := range schemeSamples {
			g.emit("%s %s", op, s)
		}
	}
}

// ---------------------------------------------------------------- C12 error-correction strength

func (g *gen) genECC() {
	for i := 0; i < g.n(250, 3000); i++ {
		n := g.intn(60)
		if g.intn(6) == 0 {
			n = g.intn(1200)
		}
		mode := g.intn(4)
		s := g.str("abcdef 0123456789XYZ", n)
		if mode == 1 {
			s = g.str(digits, n)
		} else if mode == 2 {
			s = g.str(qrAlnum, n)
		}
		g.emit("qr %s %d %d", hx(s), g.intn(4), mode)
	}
	for lvl := 0; lvl <= 8; lvl++ {
		for i := 0; i < g.n(25, 300); i++ {
			n := g.intn(80)
			if g.intn(5) == 0 {
				n = g.intn(600)
			}
			g.emit("pdf %s %d", hx(g.str("PDF417 text, 0123456789;\x80", n)), lvl)
		}
	}
	for _, pct := range []int{0, 1, 5, 10, 23, 33, 50, 75, 100, 150, 250} {
		for i := 0; i < g.n(25, 250); i++ {
			n := g.intn(60)
			if g.intn(5) == 0 {
				n = g.intn(700)
			}
			layers := 0
			if g.intn(3) == 0 {
				layers = g.intn(37) - 4
			}
			g.emit("aztec %s %d %d", hx(g.str("Aztec 12,abc. XY\x80\xfe", n)), pct, layers)
		}
	}
	g.azStuffSweep()
	for i, c := range dmCaps {
		for k := 0; k < g.n(2, 10); k++ {
			g.emit("dm %s", hx(g.dmContent(k%5, c-g.intn(2))))
		}
		_ = i
	}
}

// ---------------------------------------------------------------- C13 smallest symbol

func (g *gen) genSmallest() {
	// QR: every capacity boundary (thorough) / a rotating subset (quick), explicit modes and Auto
	for v := 1; v <= 40; v++ {
		for lvl := 0; lvl < 4; lvl++ {
			if !g.thorough() && (v+lvl)%4 != 0 && v > 4 {
				continue
			}
			for _, mode := range []int{1, 2, 3} {
				c := qrCapacity(v, lvl, mode)
				for _, n := range []int{c - 1, c, c + 1} {
					if n < 0 {
						continue
					}
					s := g.qrContent(mode, n)
					g.emit("qr %s %d %d", hx(s), lvl, mode)
					if g.intn(2) == 0 {
						g.emit("qr %s %d 0", hx(s), lvl) // Auto on the same content
					}
				}
			}
		}
	}
	for i := 0; i < g.n(100, 1500); i++ {
		mode := []int{1, 2, 3}[g.intn(3)]
		g.emit("qr %s %d 0", hx(g.qrContent(mode, g.intn(120))), g.intn(4))
	}
	g.qrCrossModePairs()
	// DataMatrix: every size boundary in every content class
	for _, c := range dmCaps {
		for kind := 0; kind < 5; kind++ {
			for _, n := range []int{c - 1, c, c + 1} {
				if n >= 0 {
					g.emit("dm %s", hx(g.dmContent(kind, n)))
				}
			}
		}
	}
	// Aztec: dense sweep of short payloads (every length) — covers the compact 64-data-word limit and the
	// compact/full-range transitions exactly, for low and high percentages
	for _, pct := range []int{0, 5, 10, 15, 16, 17, 23, 33, 50} {
		for n := 1; n <= g.n(140, 260); n++ {
			if !g.thorough() && pct%5 != 0 && n%3 != 0 {
				continue
			}
			g.emit("aztec.min %s %d", hx(g.str("ABCDEFGHIJKLMNOPQRSTUVWXYZ", n)), pct)
			if n%2 == 0 {
				g.emit("aztec.min %s %d", hx(g.str(digits, n+n/4)), pct)
			}
		}
	}
	// Aztec: automatic size vs. every smaller explicit request (op aztec.min), payloads across every layer boundary
	for _, pct := range []int{0, 23, 33, 100} {
		for n := 0; n < g.n(40, 200); n++ {
			size := n
			if n > 20 {
				size = 20 + (n-20)*g.n(45, 9)
			}
			alpha := []string{"ABCDEFGH ", "abc123,. ", "\x80\x81\xfe", "0123456789"}[g.intn(4)]
			g.emit("aztec.min %s %d", hx(g.str(alpha, size)), pct)
		}
	}
	// PDF417: codeword counts across the whole range x levels
	for lvl := 0; lvl <= 8; lvl++ {
		step := g.n(17, 3)
		for n := 0; n < 1800; n += step {
			g.emit("pdf %s %d", hx(g.str("ABCDEFGHIJ KLMNOP", n+g.intn(step))), lvl)
		}
	}
}

// ---------------------------------------------------------------- C10 acceptance / no panic / no hang

func (g *gen) genAccept() {
	// every single byte and the runes around the alphabet boundaries as one-character content, for every entry point
	var singles []string
	for b := 0; b < 256; b++ {
		singles = append(singles, string([]byte{byte(b)}))
	}
	for _, r := range []rune{0x7f, 0x80, 0xe9, 0xf0, 0xf1, 0xf2, 0xf3, 0xf4, 0xf5, 0xff, 0x100, 0x660, 0xff11, 0xfffd, 0x1f600} {
		singles = append(singles, string(r))
	}
	entry := func(s string) {
		h := hx(s)
		g.emit("ean %s", h)
		g.emit("c128 %s", h)
		g.emit("c128nc %s", h)
		for _, o := range []string{"0 0", "1 0", "0 1", "1 1"} {
			g.emit("c39 %s %s", h, o)
			g.emit("c93 %s %s", h, o)
		}
		g.emit("codabar %s", h)
		g.emit("tof %s 0", h)
		g.emit("tof %s 1", h)
		g.emit("tofcs %s", h)
		for m := 0; m < 4; m++ {
			g.emit("qr %s %d %d", h, g.intn(4), m)
		}
		g.emit("dm %s", h)
		g.emit("aztec %s 33 0", h)
		g.emit("pdf %s %d", h, g.intn(9))
	}
	entry("")
	for _, s := range singles {
		entry(s)
		if g.intn(4) == 0 {
			entry("1" + s)
			entry(s + "A")
		}
	}
	// valid-looking prefixes with one foreign character at every position (1-D encoders)
	for _, base := range []string{"1234567", "123456789012", "A123B", "12345678"} {
		for pos := 0; pos <= len(base); pos++ {
			for _, ns := range []string{"\xc3\xa9", "x", "\x00", "\xff", "*", "ñ"} {
				entry(base[:pos] + ns + base[pos:])
			}
		}
	}
	// parameter sweeps
	for lvl := 0; lvl < 256; lvl++ {
		g.emit("qr %s %d %d", hx("ABC123"), lvl, g.intn(4))
		g.emit("pdf %s %d", hx("ABC123"), lvl)
	}
	for layers := -40; layers <= 40; layers++ {
		g.emit("aztec %s 33 %d", hx("ABC123"), layers)
		g.emit("aztec %s 0 %d", hx(g.str("abc", 40)), layers)
	}
	g.azStuffSweep()
	for _, pct := range []int{0, 1, 2, 10, 33, 99, 100, 101, 500, 1000} {
		g.emit("aztec %s %d 0", hx("ABC123"), pct)
		g.emit("aztec %s %d 0", hx(g.str("abc\x80", 300)), pct)
	}
	// capacity and capacity+1 of the largest symbols
	for lvl := 0; lvl < 4; lvl++ {
		for _, mode := range []int{1, 2, 3} {
			c := qrCapacity(40, lvl, mode)
			for _, n := range []int{c, c + 1} {
				g.emit("qr %s %d %d", hx(g.qrContent(mode, n)), lvl, mode)
				g.emit("qr %s %d 0", hx(g.qrContent(mode, n)), lvl)
			}
		}
	}
	for kind := 0; kind < 5; kind++ {
		g.emit("dm %s", hx(g.dmContent(kind, 1558)))
		g.emit("dm %s", hx(g.dmContent(kind, 1559)))
	}
	for _, n := range []int{79, 80, 81} {
		g.emit("c128 %s", hx(g.str("Aa1", n)))
		g.emit("c128nc %s", hx(g.str("Aa1", n)))
	}
	for _, n := range []int{1500, 1900, 2500, 3100, 3800, 5000} {
		g.emit("aztec %s 0 0", hx(g.str("ABCDEFGH", n)))
		g.emit("aztec %s 33 0", hx(g.str("\x80\x81", n/2)))
		g.emit("pdf %s 0", hx(g.str("ABCDEFGH", n)))
		g.emit("pdf %s 8", hx(g.str(digits, n)))
	}
	// random mixtures
	for i := 0; i < g.n(300, 5000); i++ {
		entry(g.bytes(g.intn(12)))
	}
}

// ---------------------------------------------------------------- C15 / C16 mixed workloads

// genMixed: a random sequence of encodes across all symbologies and parameters (and Scale); repetitions are
// deliberate (same call at different points of the history), so ops are written without de-duplication.
// errorPathOps: calls that end in an error (or take a rarely used exit) — goroutine leaks and stale state hide there
func (g *gen) errorPathOps() []string {
	var ops []string
	add := func(f string, a ...interface{}) { ops = append(ops, fmt.Sprintf(f, a...)) }
	for lvl := 0; lvl < 4; lvl++ {
		for _, mode := range []int{1, 2, 3} {
			c := qrCapacity(40, lvl, mode)
			add("qr %s %d %d", hx(g.qrContent(mode, c+1)), lvl, mode)
			if mode != 3 {
				add("qr %s %d 0", hx(g.qrContent(mode, c+1)), lvl)
			}
		}
		// invalid character at the first / middle / last position, odd and even lengths
		for _, n := range []int{1, 2, 7, 8} {
			for _, pos := range []int{0, n / 2, n - 1} {
				b := []byte(g.str("AB12", n))
				b[pos] = 'a'
				add("qr %s %d 2", hx(string(b)), lvl)
				d := []byte(g.str(digits, n))
				d[pos] = 'x'
				add("qr %s %d 1", hx(string(d)), lvl)
			}
		}
		add("qr %s %d 2", hx("AB\xc3\xa9"), lvl)
		add("qr %s %d 0", hx(g.str("lorem ipsum ", 2500)), lvl)
	}
	add("dm %s", hx(g.dmContent(0, 1559)))
	add("aztec %s 33 0", hx(g.str("abc", 4000)))
	add("aztec %s 33 40", hx("abc"))
	add("aztec %s 33 -2", hx(g.str("abc", 200)))
	add("pdf %s 9", hx("abc"))
	add("pdf %s 0", hx(g.str("abc", 3000)))
	add("c128 %s", hx(g.str("a", 81)))
	add("c128 %s", hx("\u00e9"))
	add("ean %s", hx("12345678"))
	add("c39 %s 1 0", hx("a*"))
	add("c93 %s 1 0", hx("a*"))
	add("codabar %s", hx("A1"))
	add("tof %s 1", hx("123"))
	return ops
}

func (g *gen) genMixed(n int, withMut bool) {
	pool := g.representativeOps(false)
	pool = append(pool, g.errorPathOps()...)
	small := []string{}
	for _, op := range pool {
		if w, h, ok := sizeOf(op); ok && w*h < 3000 {
			small = append(small, op)
		}
	}
	put := func(s string) { fmt.Fprintln(g.w, s) }
	// every error-path call once up front (they must also leave nothing running and no state behind)
	for _, op := range g.errorPathOps() {
		put(op)
	}
	// designed pairs: calls that share a key a hidden cache could be indexed by (size, version, layer count, column
	// count, length) but differ in another parameter; larger before smaller and back; the same call twice
	for _, op := range g.historyPairs() {
		put(op)
	}
	for i := 0; i < n; i++ {
		switch g.intn(10) {
		case 0, 1, 2:
			put(pool[g.intn(len(pool))])
		case 3:
			// QR / DataMatrix / Aztec with varying sizes: exercises the shared RS caches in changing degree order
			// random bytes, so that all eight masks win (text over a small alphabet lets mask 2 win nearly always); a few
			// versions only, so that the same size recurs at different levels and with different winning masks (seed u06:
			// candidate bitmaps kept per size carry the format information of an earlier level)
			v := []int{1, 2, 5, 7, 7, 8, 9, 10, 10, 14, 20}[g.intn(11)]
			lvl := g.intn(4)
			n := qrCapacity(v, lvl, 3) - g.intn(3)
			if g.intn(3) == 0 {
				put(fmt.Sprintf("qr %s %d 3", hx(g.str("abcdefgh", n)), lvl))
			} else {
				put(fmt.Sprintf("qr %s %d %d", hx(g.bytes(n)), lvl, []int{3, 3, 0}[g.intn(3)]))
			}
		case 4:
			// all 24 sizes; every other one from the multi-block sizes (52x52 and up), whose check words are computed
			// per interleaved block (seed t06: scratch space shared between concurrent multi-block encodes)
			k := g.intn(24)
			if g.intn(2) == 0 {
				k = 14 + g.intn(10)
			}
			put(fmt.Sprintf("dm %s", hx(g.dmContent(g.intn(5), dmCaps[k]-g.intn(3)))))
		case 5:
			put(fmt.Sprintf("aztec %s %d %d", hx(g.str("Aztec 12,abc.\x80", 1+g.intn(120))), []int{0, 23, 33, 100}[g.intn(4)], []int{0, 0, -3, 5, 12}[g.intn(5)]))
		case 6:
			put(fmt.Sprintf("pdf %s %d", hx(g.str("PDF417 text, 0123456789;\x80", g.intn(200))), g.intn(9)))
		case 7:
			src := small[g.intn(len(small))]
			w, h, _ := sizeOf(src)
			put(fmt.Sprintf("scale %d %d - %s", w+g.intn(2*w), h+g.intn(2*h+1), src))
		case 8:
			put(small[g.intn(len(small))] + " " + g.randScheme())
		case 9:
			if withMut {
				put(fmt.Sprintf("mut aztec %s %d %d", hx(g.str("Aztec 12,abc.\x80\xff", g.intn(60))), []int{0, 33}[g.intn(2)], []int{0, 0, -2, 7}[g.intn(4)]))
			} else {
				put(fmt.Sprintf("c39 %s %d %d", hx(g.str(c39Alphabet, g.intn(20))), g.intn(2), 0))
			}
		}
	}
}


// historyPairs: see genMixed
func (g *gen) historyPairs() []string {
	var out []string
	add := func(format string, a ...interface{}) { out = append(out, fmt.Sprintf(format, a...)) }
	// QR: one version at every ordered pair of levels (version 7 has version information and alignment patterns on
	// the timing lines), two more versions at a few pairs; random bytes so that the winning mask varies
	for _, v := range []int{7, 2, 10} {
		for a := 0; a < 4; a++ {
			for b := 0; b < 4; b++ {
				if a == b || (v != 7 && (a+b)%2 == 0) {
					continue
				}
				add("qr %s %d 3", hx(g.bytes(qrCapacity(v, a, 3)-g.intn(2))), a)
				add("qr %s %d 3", hx(g.bytes(qrCapacity(v, b, 3)-g.intn(2))), b)
			}
		}
	}
	// numeric / alphanumeric / auto at one size
	for _, m := range []int{1, 2, 0, 3} {
		mm := m
		if m == 0 {
			mm = 1
		}
		add("qr %s 1 %d", hx(g.qrContent(mm, qrCapacity(8, 1, mm)-1)), m)
	}
	// DataMatrix: large, small, the same size with other content, the 12x12..24x24 sizes after larger ones
	for _, k := range []int{23, 3, 3, 17, 5, 5, 14, 7, 7, 20, 9, 1, 1, 15, 15, 0} {
		add("dm %s", hx(g.dmContent(g.intn(5), dmCaps[k]-g.intn(2))))
	}
	// Aztec: the same layer count with other percentages / contents, compact after full and back, large then small
	for _, l := range []int{5, 5, -3, 3, -3, 12, 2, 2, -1, 22, 1, 0, 0} {
		n := 6
		if l > 4 {
			n = 40 + g.intn(60)
		}
		add("aztec %s %d %d", hx(g.str("Aztec 12,abc.\x80\xff\x00", n+g.intn(6))), []int{5, 23, 33, 50}[g.intn(4)], l)
	}
	add("aztec %s 23 0", hx(strings.Repeat("\xff", 900)))
	add("aztec %s 23 0", hx("\xff"))
	// PDF417: the same content at every level (same data, other check words and dimensions), long then short
	txt := g.str("PDF417 text, 0123456789;\x80", 60)
	for lvl := 0; lvl <= 8; lvl++ {
		add("pdf %s %d", hx(txt), lvl)
	}
	add("pdf %s 2", hx(g.str(digits, 400)))
	add("pdf %s 2", hx("7"))
	add("pdf %s 5", hx(g.str("ab\x80", 300)))
	add("pdf %s 5", hx("ab"))
	// 1D: long then short, the same length with other content
	for _, n := range []int{60, 3, 3, 20, 20, 1} {
		add("c128 %s", hx(g.str("Aa1\x01", n)))
		add("c39 %s 1 1", hx(g.str("Ab1%", n)))
		add("c93 %s 1 1", hx(g.str("Ab1%", n)))
		add("codabar %s", hx("A"+g.str("0123456789-$", n)+"B"))
		add("tof %s 1", hx(g.str(digits, 2*n)))
	}
	for i := 0; i < 4; i++ {
		add("ean %s", hx(g.str(digits, 12)))
		add("ean %s", hx(g.str(digits, 7)))
	}
	// rejected calls in between: V, X, R, X — a call that returns an error must leave nothing behind that changes a
	// later result (seed w06: a cache in front of the capacity check, overrun by an input that is refused). R ranges over
	// inputs that are too large by a little, by a lot, and over malformed ones; X is compared with its fresh-process result
	quad := func(v, x string, rs ...string) {
		for _, r := range rs {
			out = append(out, v, x, r, x)
		}
	}
	pd := func(s string, lvl int) string { return fmt.Sprintf("pdf %s %d", hx(s), lvl) }
	quad(pd("first", 2), pd("THE QUICK BROWN FOX 0123456789", 2),
		pd(g.str("ABCDEFGH", 1900), 0), pd(g.str("ABCDEFGH", 2600), 0), pd(g.str("ABCDEFGH", 3600), 1), pd(g.str(digits, 2900), 0),
		pd(g.str(digits, 5000), 0), pd(g.str("\x80\x81", 1300), 0), pd(g.str("\x80\x81", 2100), 3), pd("x", 9))
	q := func(s string, lvl, mode int) string { return fmt.Sprintf("qr %s %d %d", hx(s), lvl, mode) }
	quad(q("first", 0, 0), q(g.bytes(70), 1, 3),
		q(g.bytes(2954), 0, 3), q(g.bytes(4000), 0, 3), q(g.str(digits, 7090), 0, 1), q("12a", 0, 1), q("abc", 1, 2), q(g.bytes(1274), 3, 3))
	quad("dm "+hx("first"), "dm "+hx(g.dmContent(1, 40)), "dm "+hx(g.dmContent(0, 1559)), "dm "+hx(g.dmContent(3, 2500)), "dm "+hx(g.dmContent(2, 5000)))
	az := func(s string, pct, l int) string { return fmt.Sprintf("aztec %s %d %d", hx(s), pct, l) }
	quad(az("first", 33, 0), az("Aztec, 12.5 \x80", 23, 0),
		az(g.str("abc", 4000), 33, 0), az(g.bytes(2000), 33, 0), az(g.str("abc", 200), 33, -2), az("abc", 33, 40), az(g.bytes(2200), 0, 0))
	quad("c128 "+hx("first"), "c128 "+hx("Ab12\x01"), "c128 "+hx(g.str("a", 81)), "c128 "+hx("\xc3\xa9"), "c128 -")
	quad("c39 "+hx("FIRST")+" 1 0", "c39 "+hx("AB-12")+" 1 0", "c39 "+hx("ab")+" 1 0", "c39 "+hx("\xc3\xa9")+" 1 1")
	quad("c93 "+hx("FIRST")+" 1 0", "c93 "+hx("AB-12")+" 1 0", "c93 "+hx("ab")+" 1 0", "c93 "+hx("\xc3\xa9")+" 1 1")
	quad("ean "+hx("1234567"), "ean "+hx("7654321"), "ean "+hx("12345678"), "ean "+hx("123456"), "ean "+hx("12345a7"))
	quad("tof "+hx("12")+" 1", "tof "+hx("3456")+" 1", "tof "+hx("123")+" 1", "tof "+hx("12a4")+" 1", "tof - 0")
	quad("codabar "+hx("A1B"), "codabar "+hx("C23-4D"), "codabar "+hx("12"), "codabar "+hx("A1"), "codabar -")
	return out
}


// qrCrossModePairs: consecutive calls (the ops of a check run in order within one process) at the same level whose
// contents sit on the two sides of one version boundary in two *different* modes: the first no longer fits version v in
// mode m1, the second exactly fills version v in mode m2. The modes' character-count fields differ in width, so the two
// bit counts are within a few bits of each other — any shortcut that carries a size decision from one call to the next
// (seed x02: a resume hint in findSmallestVersionInfo) is wrong exactly here. Each op is also checked on its own.
func (g *gen) qrCrossModePairs() {
	put := func(format string, a ...interface{}) { fmt.Fprintf(g.w, format+"\n", a...) } // no de-duplication: order matters
	for lvl := 0; lvl < 4; lvl++ {
		for v := 1; v < 40; v++ {
			if !g.thorough() && (v*7+lvl)%5 != 0 && v > 3 {
				continue
			}
			for _, m1 := range []int{1, 2, 3} {
				for _, m2 := range []int{1, 2, 3} {
					if m1 == m2 {
						continue
					}
					e1, e2 := m1, m2
					if g.intn(3) == 0 {
						e2 = 0 // Auto on content of class m2
					}
					put("qr %s %d %d", hx(g.qrContent(m1, qrCapacity(v, lvl, m1)+1)), lvl, e1)
					put("qr %s %d %d", hx(g.qrContent(m2, qrCapacity(v, lvl, m2))), lvl, e2)
				}
			}
		}
	}
}
