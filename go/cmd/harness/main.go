// harness — generators, in-process execution of the real encoders, line protocol (see DESIGN §1.4).
//
//	harness run                      ops on stdin -> result lines on stdout
//	harness gen <prop> <tier> <seed> op lines for a property on stdout
package main

import (
	"bufio"
	"fmt"
	"os"
	"strconv"
)

func main() {
	if len(os.Args) < 2 {
		fmt.Fprintln(os.Stderr, "usage: harness run | gen <prop> <tier> <seed>")
		os.Exit(2)
	}
	switch os.Args[1] {
	case "run":
		runOps(os.Stdin, os.Stdout)
	case "conc":
		n, _ := strconv.Atoi(os.Args[2])
		runConcurrent(os.Stdin, os.Stdout, n)
	case "gen":
		seed, _ := strconv.ParseUint(os.Args[4], 10, 64)
		w := bufio.NewWriterSize(os.Stdout, 1<<20)
		defer w.Flush()
		g := &gen{rng: rng{seed*0x9E3779B97F4A7C15 + 0x1234567}, tier: os.Args[3], w: w, seen: map[string]bool{}}
		if !g.property(os.Args[2]) {
			w.Flush()
			fmt.Fprintln(os.Stderr, "unknown property", os.Args[2])
			os.Exit(2)
		}
	default:
		os.Exit(2)
	}
}
