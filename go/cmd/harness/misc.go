package main

// misc.go — ops that are not "encode a barcode": helper functions, stage-level and finite-domain ops.

import (
	"fmt"
	"strconv"
	"strings"

	"github.com/boombuler/barcode/aztec"
	"github.com/boombuler/barcode/twooffive"
	"github.com/boombuler/barcode/utils"
)

// aztecSize: symbol dimension of a layer request (ISO/IEC 24778: compact 11+4L, full 15+4L+2*((2L+6)/15))
func aztecSize(req int) int {
	if req < 0 {
		return 11 + 4*(-req)
	}
	return 15 + 4*req + 2*((2*req+6)/15)
}

func ints(s string) []int {
	if s == "-" || s == "" {
		return []int{}
	}
	p := strings.Split(s, ",")
	out := make([]int, len(p))
	for i, x := range p {
		out[i] = atoi(x)
	}
	return out
}

func joinInts(v []int) string {
	if len(v) == 0 {
		return "-"
	}
	var b strings.Builder
	for i, x := range v {
		if i > 0 {
			b.WriteByte(',')
		}
		b.WriteString(strconv.Itoa(x))
	}
	return b.String()
}

func miscOp(f []string) (string, bool) {
	switch f[0] {
	case "tofcs":
		s, err := twooffive.AddCheckSum(string(unhex(f[1])))
		if err != nil {
			return "rej", true
		}
		return "ok str=" + hexField([]byte(s)), true
	case "bl":
		return bitListOp(f[1:]), true
	case "aztec.min":
		// automatic size, then every explicit request for a physically smaller symbol
		data := unhex(f[1])
		pct := atoi(f[2])
		bc, err := aztec.Encode(data, pct, 0)
		if err != nil || bc == nil {
			return "rej", true
		}
		size := bc.Bounds().Max.X
		var okReqs []int
		for req := -4; req <= 32; req++ {
			if req == 0 || aztecSize(req) >= size {
				continue
			}
			if b2, err := aztec.Encode(data, pct, req); err == nil && b2 != nil {
				okReqs = append(okReqs, req)
			}
		}
		return fmt.Sprintf("ok auto=%d smaller_ok=%s", size, joinInts(okReqs)), true
	case "gf.tables":
		gf := utils.NewGaloisField(atoi(f[1]), atoi(f[2]), atoi(f[3]))
		return fmt.Sprintf("ok size=%d base=%d alog=%s log=%s", gf.Size, gf.Base, joinInts(gf.ALogTbl), joinInts(gf.LogTbl)), true
	case "gf.mulrow", "gf.divrow":
		gf := utils.NewGaloisField(atoi(f[1]), atoi(f[2]), atoi(f[3]))
		a := atoi(f[4])
		out := make([]int, gf.Size)
		for b := 0; b < gf.Size; b++ {
			if f[0] == "gf.mulrow" {
				out[b] = gf.Multiply(a, b)
			} else if b == 0 {
				out[b] = -1 // Divide(a, 0) panics by contract
			} else {
				out[b] = gf.Divide(a, b)
			}
		}
		return "ok v=" + joinInts(out), true
	case "gf.inv":
		gf := utils.NewGaloisField(atoi(f[1]), atoi(f[2]), atoi(f[3]))
		out := make([]int, gf.Size)
		for a := 1; a < gf.Size; a++ {
			out[a] = gf.Invers(a)
		}
		return "ok v=" + joinInts(out), true
	case "gf.div0":
		gf := utils.NewGaloisField(atoi(f[1]), atoi(f[2]), atoi(f[3]))
		gf.Divide(atoi(f[4]), 0)
		return "ok", true
	case "poly":
		// poly <pp> <size> <base> <op> <p> <q>
		gf := utils.NewGaloisField(atoi(f[1]), atoi(f[2]), atoi(f[3]))
		switch f[4] {
		case "mono": // NewMonominalPoly(degree p, coefficient q)
			return "ok r=" + joinInts(utils.NewMonominalPoly(gf, atoi(f[5]), atoi(f[6])).Coefficients), true
		case "mulmono": // p.MultByMonominal(degree, coefficient), q = "degree,coefficient"
			dc := ints(f[6])
			d := ints(f[5])
			buf := make([]int, len(d)+64)
			for i := range buf {
				buf[i] = -0x5a5a5a
			}
			copy(buf, d)
			r := utils.NewGFPoly(gf, buf[:len(d)]).MultByMonominal(dc[0], dc[1])
			g := " guard=1"
			for i, x := range buf {
				if (i < len(d) && x != d[i]) || (i >= len(d) && x != -0x5a5a5a) {
					g = " guard=0"
				}
			}
			return "ok r=" + joinInts(r.Coefficients) + g, true
		}
		// operands are windows into larger sentinel-filled buffers: no operation may write outside (or inside) them
		const sentinel = -0x5a5a5a
		var bufs [][]int
		var origs [][]int
		window := func(d []int) []int {
			buf := make([]int, 4+len(d)+64)
			for i := range buf {
				buf[i] = sentinel
			}
			copy(buf[4:], d)
			bufs = append(bufs, buf)
			origs = append(origs, append([]int(nil), d...))
			return buf[4 : 4+len(d)]
		}
		guardOf := func() string {
			for k, buf := range bufs {
				for i, x := range buf {
					if i >= 4 && i < 4+len(origs[k]) {
						if x != origs[k][i-4] {
							return " guard=0"
						}
					} else if x != sentinel {
						return " guard=0"
					}
				}
			}
			return " guard=1"
		}
		p := utils.NewGFPoly(gf, window(ints(f[5])))
		q := utils.NewGFPoly(gf, window(ints(f[6])))
		// the accessors of the result are part of the observation: Degree, Zero, GetCoefficient(0 and Degree)
		acc := func(r *utils.GFPoly) string {
			z := 0
			if r.Zero() {
				z = 1
			}
			return fmt.Sprintf(" deg=%d zero=%d lo=%d hi=%d", r.Degree(), z, r.GetCoefficient(0), r.GetCoefficient(r.Degree()))
		}
		switch f[4] {
		case "add":
			r := p.AddOrSubstract(q)
			return "ok r=" + joinInts(r.Coefficients) + acc(r) + guardOf(), true
		case "mul":
			r := p.Multiply(q)
			return "ok r=" + joinInts(r.Coefficients) + acc(r) + guardOf(), true
		case "div":
			quo, rem := p.Divide(q)
			return "ok q=" + joinInts(quo.Coefficients) + " r=" + joinInts(rem.Coefficients) + acc(rem) + guardOf(), true
		}
	case "rs":
		// rs <pp> <size> <base> <k1>:<data1>;<k2>:<data2>;…   one shared encoder, calls in order
		gf := utils.NewGaloisField(atoi(f[1]), atoi(f[2]), atoi(f[3]))
		enc := utils.NewReedSolomonEncoder(gf)
		// every call gets a window into one larger buffer (the way a caller keeps several blocks back to back): sentinels
		// before and after the window, spare capacity behind it; afterwards the window and the sentinels must be unchanged
		var outs []string
		guard := 1
		const sentinel = -0x5a5a5a
		for _, call := range strings.Split(f[4], ";") {
			kv := strings.SplitN(call, ":", 2)
			d := ints(kv[1])
			buf := make([]int, 8+len(d)+700)
			for i := range buf {
				buf[i] = sentinel
			}
			copy(buf[8:], d)
			res := enc.Encode(buf[8:8+len(d)], atoi(kv[0]))
			outs = append(outs, joinInts(res))
			for i, x := range buf {
				if i >= 8 && i < 8+len(d) {
					if x != d[i-8] {
						guard = 0
					}
				} else if x != sentinel {
					guard = 0
				}
			}
		}
		return "ok r=" + strings.Join(outs, ";") + " guard=" + strconv.Itoa(guard), true
	}
	return "", false
}

// bitListOp interprets a script of BitList operations:
//
//	z | n<cap>   zero value / NewBitList(cap)           (first token)
//	a<0|1>       AddBit          A<bits>  AddBit(bits...) variadic
//	B<byte>      AddByte         b<x>,<k> AddBits(x, k)
//	s<i>,<0|1>   SetBit          g<i>     GetBit (result appended to gets=)
func bitListOp(script []string) string {
	var bl *utils.BitList
	var gets strings.Builder
	for idx, t := range script {
		switch {
		case idx == 0 && t == "z":
			bl = new(utils.BitList)
		case idx == 0 && t[0] == 'n':
			bl = utils.NewBitList(atoi(t[1:]))
		case t[0] == 'a':
			bl.AddBit(t[1:] == "1")
		case t[0] == 'A':
			bits := make([]bool, len(t)-1)
			for i, c := range t[1:] {
				bits[i] = c == '1'
			}
			bl.AddBit(bits...)
		case t[0] == 'B':
			bl.AddByte(byte(atoi(t[1:])))
		case t[0] == 'b':
			p := strings.Split(t[1:], ",")
			bl.AddBits(atoi(p[0]), byte(atoi(p[1])))
		case t[0] == 's':
			p := strings.Split(t[1:], ",")
			bl.SetBit(atoi(p[0]), p[1] == "1")
		case t[0] == 'g':
			if bl.GetBit(atoi(t[1:])) {
				gets.WriteByte('1')
			} else {
				gets.WriteByte('0')
			}
		default:
			panic("bad bitlist script token " + t)
		}
	}
	by := bl.GetBytes()
	var it []byte
	for b := range bl.IterateBytes() {
		it = append(it, b)
	}
	g := gets.String()
	if g == "" {
		g = "-"
	}
	return fmt.Sprintf("ok len=%d bytes=%s iter=%s gets=%s", bl.Len(), hexField(by), hexField(it), g)
}
