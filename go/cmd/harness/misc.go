package main

// misc.go — ops that are not "encode a barcode": helper functions, stage-level and finite-domain ops.

import (
	"github.com/boombuler/barcode/twooffive"
)

func miscOp(f []string) (string, bool) {
	switch f[0] {
	case "tofcs":
		s, err := twooffive.AddCheckSum(string(unhex(f[1])))
		if err != nil {
			return "rej", true
		}
		return "ok str=" + hexField([]byte(s)), true
	}
	return "", false
}
