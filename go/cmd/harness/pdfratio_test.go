package main

// pdfratio_test.go — justification of the exact-rational model of the float64 comparison in
// pdf417.calcDimensions (lean/BV/Model/Pdf417.lean, `fartherFrom3`):
//
//	math.Abs(newRatio-preferred_ratio) > math.Abs(ratio-preferred_ratio)
//
// where both ratios are float64(17*cols+69)/float64(rows*moduleHeight) for 2 <= cols, rows <= 30.
// The test compares the float64 expression with the integer formula of the model on ALL pairs.

import (
	"math"
	"math/big"
	"testing"
)

func TestPdfRatioComparisonIsExact(t *testing.T) {
	type q struct{ a, b int }
	var vals []q
	for c := 2; c <= 30; c++ {
		for r := 2; r <= 30; r++ {
			vals = append(vals, q{17*c + 69, r * 2})
		}
	}
	abs := func(x int) int {
		if x < 0 {
			return -x
		}
		return x
	}
	three := big.NewRat(3, 1)
	ties := 0
	for _, x := range vals {
		for _, y := range vals {
			fl := math.Abs(float64(x.a)/float64(x.b)-3.0) > math.Abs(float64(y.a)/float64(y.b)-3.0)
			model := abs(x.a-3*x.b)*y.b > abs(y.a-3*y.b)*x.b
			dx := new(big.Rat).Sub(big.NewRat(int64(x.a), int64(x.b)), three)
			dy := new(big.Rat).Sub(big.NewRat(int64(y.a), int64(y.b)), three)
			exact := dx.Abs(dx).Cmp(dy.Abs(dy)) > 0
			if fl != model || fl != exact {
				t.Fatalf("%d/%d vs %d/%d: float64 %v, model %v, exact %v", x.a, x.b, y.a, y.b, fl, model, exact)
			}
			if dx.Cmp(dy) == 0 && x.a*y.b != y.a*x.b {
				ties++
			}
		}
		// +Inf as the old ratio (the first accepted candidate): nothing finite is farther
		if math.Abs(float64(x.a)/float64(x.b)-3.0) > math.Abs(math.Inf(1)-3.0) {
			t.Fatalf("finite > +Inf")
		}
	}
	t.Logf("%d x %d pairs agree; %d ordered pairs of different ratios at equal distance from 3", len(vals), len(vals), ties)
}
